"""Order-insensitivity and purity contracts, decided on the AST of the real modules (re-read on every run).

Contract O (order): the iteration order of a set (hash order: depends on PYTHONHASHSEED for str keys and for the
entity classes whose __hash__ mixes in strings) never reaches a result.  A conservative taint analysis per function:

  set-typed      set/frozenset literals, comprehensions and constructors, set operators and methods, names annotated
                 set[...]/frozenset[...], module-level frozenset constants, calls of package functions annotated to
                 return a set, values of dicts annotated dict[..., set[...]]
  tainted        a list / tuple / dict / generator whose element or key ORDER comes from iterating something set-typed or
                 tainted (comprehension, list(), tuple(), dict filled or list appended inside such a loop)
  cleansed by    sorted(), set(), frozenset(), sum(), any(), all(), len(), min()/max() without key, membership tests,
                 set.update/|=, Counter()
  sinks          return / yield of tainted values, indexing, next(iter()), set.pop(), min/max with key, unpacking, join,
                 a loop over set-typed or tainted values whose body returns, yields, breaks, or calls unknown functions
                 with the loop variable as a statement (output), dict(...) / list(...) results that are returned

Contract P (purity): no function of the library modules stores into module-level mutable state (global statement, or a
store / mutating method call on a module-level list, dict or set) except the registered infrastructure state.

The analysis is flow-insensitive per function and does not follow sets through un-annotated parameters, attributes or
containers other than the cases above: stated as assumption A-ORDER-STATIC in the evidence.
"""
from __future__ import annotations

import ast
import os
from dataclasses import dataclass

CLEANSERS = {'sorted', 'set', 'frozenset', 'sum', 'any', 'all', 'len', 'Counter', 'bool'}
SET_METHODS = {'intersection', 'union', 'difference', 'symmetric_difference', 'copy'}
SET_MUTATORS = {'add', 'update', 'discard', 'remove', 'intersection_update', 'difference_update', 'clear'}
ORDER_BUILDERS = {'list', 'tuple', 'dict', 'enumerate', 'zip', 'iter', 'reversed', 'map', 'filter', 'chain'}


@dataclass
class Site:
    module: str
    function: str
    lineno: int
    kind: str
    text: str

    def key(self):
        return f'{self.module}:{self.function}:{self.kind}:{self.text}'


def _ann_is_set(ann) -> bool:
    if ann is None:
        return False
    s = ast.unparse(ann)
    head = s.split('[')[0].split('.')[-1]
    return head in ('set', 'Set', 'frozenset', 'FrozenSet', 'AbstractSet', 'MutableSet')


def _ann_dict_of_sets(ann) -> bool:
    if ann is None:
        return False
    s = ast.unparse(ann)
    return s.split('[')[0].split('.')[-1] in ('dict', 'Dict', 'defaultdict') and ('set[' in s or 'Set[' in s)


class ModuleInfo:
    def __init__(self, name, path):
        self.name = name
        self.path = path
        self.tree = ast.parse(open(path).read())
        self.set_consts = set()
        self.mutable_globals = set()
        self.set_returning = set()
        for node in self.tree.body:
            targets = []
            value = None
            if isinstance(node, ast.Assign):
                targets, value = node.targets, node.value
            elif isinstance(node, ast.AnnAssign) and node.value is not None:
                targets, value = [node.target], node.value
                if _ann_is_set(node.annotation) and isinstance(node.target, ast.Name):
                    self.set_consts.add(node.target.id)
            for t in targets:
                if not isinstance(t, ast.Name):
                    continue
                if isinstance(value, (ast.Set, ast.SetComp)) or (
                        isinstance(value, ast.Call) and isinstance(value.func, ast.Name) and
                        value.func.id in ('set', 'frozenset')):
                    self.set_consts.add(t.id)
                if isinstance(value, (ast.List, ast.Dict, ast.Set, ast.ListComp, ast.DictComp, ast.SetComp)) or (
                        isinstance(value, ast.Call) and isinstance(value.func, ast.Name) and
                        value.func.id in ('list', 'dict', 'set', 'defaultdict', 'OrderedDict', 'deque')):
                    self.mutable_globals.add(t.id)
            if isinstance(node, (ast.FunctionDef,)) and _ann_is_set(node.returns):
                self.set_returning.add(node.name)


class FunctionAnalysis(ast.NodeVisitor):
    def __init__(self, mod: ModuleInfo, all_mods: dict, fn: ast.FunctionDef, qual: str):
        self.mod = mod
        self.all = all_mods
        self.fn = fn
        self.qual = qual
        self.sets: set = set()
        self.dict_of_sets: set = set()
        self.tainted: set = set()
        self.sites: list[Site] = []
        self.returns_set = _ann_is_set(fn.returns)
        for a in list(fn.args.args) + list(fn.args.kwonlyargs):
            if _ann_is_set(a.annotation):
                self.sets.add(a.arg)
            if _ann_dict_of_sets(a.annotation):
                self.dict_of_sets.add(a.arg)

    # -- typing -------------------------------------------------------------------------------------------------
    def is_set(self, e) -> bool:
        if isinstance(e, (ast.Set, ast.SetComp)):
            return True
        if isinstance(e, ast.Name):
            return e.id in self.sets or (e.id in self.mod.set_consts and e.id not in self.local_names)
        if isinstance(e, ast.Attribute):
            # module.CONSTANT
            return any(e.attr in m.set_consts for m in self.all.values()) and isinstance(e.value, ast.Name)
        if isinstance(e, ast.BinOp) and isinstance(e.op, (ast.BitOr, ast.BitAnd, ast.Sub, ast.BitXor)):
            def view(x):
                return isinstance(x, ast.Call) and isinstance(x.func, ast.Attribute) and x.func.attr in ('keys', 'items')
            # set operators on dict views yield sets
            return self.is_set(e.left) or self.is_set(e.right) or view(e.left) or view(e.right)
        if isinstance(e, ast.Call):
            f = e.func
            if isinstance(f, ast.Name):
                if f.id in ('set', 'frozenset'):
                    return True
                if f.id in self.mod.set_returning or any(f.id in m.set_returning for m in self.all.values()):
                    return True
            if isinstance(f, ast.Attribute):
                if f.attr in SET_METHODS and self.is_set(f.value):
                    return True
                if f.attr in ('keys', 'values', 'items') and self.is_tainted(f.value):
                    return False
                if any(f.attr in m.set_returning for m in self.all.values()):
                    return True
        if isinstance(e, ast.Subscript) and isinstance(e.value, ast.Name) and e.value.id in self.dict_of_sets:
            return True
        if isinstance(e, ast.IfExp):
            return self.is_set(e.body) or self.is_set(e.orelse)
        return False

    def is_tainted(self, e) -> bool:
        if isinstance(e, ast.Name):
            return e.id in self.tainted
        if isinstance(e, ast.Call):
            f = e.func
            if isinstance(f, ast.Name) and f.id in CLEANSERS:
                return False
            if isinstance(f, ast.Name) and f.id in ORDER_BUILDERS:
                return any(self.unordered(a) for a in e.args)
            if isinstance(f, ast.Attribute) and f.attr in ('keys', 'values', 'items', 'copy', 'get'):
                return self.is_tainted(f.value)
        if isinstance(e, (ast.ListComp, ast.GeneratorExp, ast.DictComp)):
            return any(self.unordered(g.iter) for g in e.generators)
        if isinstance(e, ast.BinOp) and isinstance(e.op, ast.Add):
            return self.is_tainted(e.left) or self.is_tainted(e.right)
        if isinstance(e, ast.Subscript) and isinstance(e.slice, ast.Slice):
            return self.is_tainted(e.value)
        if isinstance(e, ast.IfExp):
            return self.is_tainted(e.body) or self.is_tainted(e.orelse)
        if isinstance(e, ast.Starred):
            return self.unordered(e.value)
        return False

    def unordered(self, e) -> bool:
        return self.is_set(e) or self.is_tainted(e)

    # -- driver -------------------------------------------------------------------------------------------------
    def run(self):
        self.local_names = {n.id for n in ast.walk(self.fn) if isinstance(n, ast.Name) and isinstance(n.ctx, ast.Store)}
        self.local_names |= {a.arg for a in self.fn.args.args}
        # fixpoint over assignments (flow-insensitive)
        for _ in range(6):
            before = (len(self.sets), len(self.tainted), len(self.dict_of_sets))
            for node in self._walk(self.fn):
                self._assignments(node)
            if before == (len(self.sets), len(self.tainted), len(self.dict_of_sets)):
                break
        for node in self._walk(self.fn):
            self._sinks(node)
        return self.sites

    def _walk(self, root):
        """Nodes of the function, not descending into nested function definitions (analysed on their own, sharing
        nothing) except lambdas."""
        stack = list(ast.iter_child_nodes(root))
        while stack:
            n = stack.pop()
            yield n
            if isinstance(n, (ast.FunctionDef, ast.AsyncFunctionDef, ast.ClassDef)):
                continue
            stack.extend(ast.iter_child_nodes(n))

    def _names(self, target):
        if isinstance(target, ast.Name):
            return [target.id]
        if isinstance(target, (ast.Tuple, ast.List)):
            return [n for t in target.elts for n in self._names(t)]
        return []

    def _assignments(self, node):
        if isinstance(node, ast.Assign):
            for t in node.targets:
                self._bind(t, node.value)
        elif isinstance(node, ast.AnnAssign):
            if isinstance(node.target, ast.Name):
                if _ann_is_set(node.annotation):
                    self.sets.add(node.target.id)
                if _ann_dict_of_sets(node.annotation):
                    self.dict_of_sets.add(node.target.id)
            if node.value is not None:
                self._bind(node.target, node.value)
        elif isinstance(node, ast.AugAssign) and isinstance(node.target, ast.Name):
            if isinstance(node.op, (ast.BitOr, ast.BitAnd, ast.Sub)) and self.is_set(node.value):
                self.sets.add(node.target.id)
            if isinstance(node.op, ast.Add) and self.unordered(node.value) and not self.is_set(node.target):
                self.tainted.add(node.target.id)
        elif isinstance(node, ast.For):
            if self.unordered(node.iter):
                # containers filled inside the loop get their order from it
                for sub in ast.walk(ast.Module(body=node.body, type_ignores=[])):
                    if isinstance(sub, ast.Call) and isinstance(sub.func, ast.Attribute) and \
                            sub.func.attr in ('append', 'extend', 'insert', 'setdefault', 'appendleft'):
                        base = sub.func.value
                        while isinstance(base, (ast.Subscript, ast.Call, ast.Attribute)):
                            base = base.value if not isinstance(base, ast.Call) else base.func
                        if isinstance(base, ast.Name) and base.id not in self.sets:
                            self.tainted.add(base.id)
                    if isinstance(sub, (ast.Assign, ast.AugAssign)):
                        tg = sub.targets if isinstance(sub, ast.Assign) else [sub.target]
                        for t in tg:
                            if isinstance(t, ast.Subscript) and isinstance(t.value, ast.Name) and \
                                    t.value.id not in self.dict_of_sets:
                                self.tainted.add(t.value.id)
            # loop variables over dict-of-sets items
            it = node.iter
            if isinstance(it, ast.Call) and isinstance(it.func, ast.Attribute) and it.func.attr in ('items', 'values') \
                    and isinstance(it.func.value, ast.Name) and it.func.value.id in self.dict_of_sets:
                names = self._names(node.target)
                if names:
                    self.sets.add(names[-1])
        elif isinstance(node, (ast.ListComp, ast.GeneratorExp, ast.SetComp, ast.DictComp)):
            for g in node.generators:
                it = g.iter
                if isinstance(it, ast.Call) and isinstance(it.func, ast.Attribute) and \
                        it.func.attr in ('items', 'values') and isinstance(it.func.value, ast.Name) and \
                        it.func.value.id in self.dict_of_sets:
                    names = self._names(g.target)
                    if names:
                        self.sets.add(names[-1])

    def _bind(self, target, value):
        names = self._names(target)
        if not names:
            return
        if isinstance(target, ast.Name):
            if self.is_set(value):
                self.sets.add(target.id)
            elif self.is_tainted(value):
                self.tainted.add(target.id)
            if isinstance(value, ast.Dict) or (isinstance(value, ast.Call) and isinstance(value.func, ast.Name)
                                               and value.func.id in ('dict', 'defaultdict')):
                if isinstance(value, ast.Call) and value.args and isinstance(value.args[0], ast.Name) and \
                        value.args[0].id == 'set':
                    self.dict_of_sets.add(target.id)

    def site(self, node, kind):
        txt = ast.unparse(node)
        txt = ' '.join(txt.split())[:160]
        self.sites.append(Site(self.mod.name, self.qual, getattr(node, 'lineno', 0), kind, txt))

    def _cleansed_parent(self, node) -> bool:
        p = getattr(node, '_parent', None)
        if isinstance(p, ast.Call):
            f = p.func
            if isinstance(f, ast.Name) and f.id in CLEANSERS and node in p.args:
                return True
            if isinstance(f, ast.Name) and f.id in ('min', 'max') and node in p.args and not p.keywords:
                return True
            if isinstance(f, ast.Attribute) and f.attr in SET_MUTATORS | SET_METHODS | {'issubset', 'issuperset',
                                                                                       'isdisjoint'}:
                return True
        if isinstance(p, ast.Compare) and any(isinstance(o, (ast.In, ast.NotIn)) for o in p.ops):
            return True
        return False

    def _sinks(self, node):
        for child in ast.iter_child_nodes(node):
            child._parent = node
        if isinstance(node, ast.Return) and node.value is not None:
            v = node.value
            if self.is_tainted(v) or (isinstance(v, (ast.ListComp, ast.DictComp, ast.GeneratorExp)) and
                                      any(self.unordered(g.iter) for g in v.generators)):
                self.site(node, 'return-of-hash-ordered-value')
            elif isinstance(v, (ast.Tuple, ast.List)) and any(self.is_tainted(x) for x in v.elts):
                self.site(node, 'return-of-hash-ordered-value')
        elif isinstance(node, (ast.Yield, ast.YieldFrom)) and node.value is not None:
            if self.is_tainted(node.value) or (isinstance(node, ast.YieldFrom) and self.unordered(node.value)):
                self.site(node, 'yield-of-hash-ordered-value')
        elif isinstance(node, ast.Subscript) and not isinstance(node.slice, ast.Slice) and isinstance(node.ctx, ast.Load):
            if self.is_tainted(node.value) and not self._is_key_lookup(node):
                self.site(node, 'index-into-hash-ordered-sequence')
        elif isinstance(node, ast.Call):
            f = node.func
            if isinstance(f, ast.Name) and f.id == 'next' and node.args and isinstance(node.args[0], ast.Call) and \
                    isinstance(node.args[0].func, ast.Name) and node.args[0].func.id == 'iter' and \
                    node.args[0].args and self.unordered(node.args[0].args[0]):
                self.site(node, 'first-element-of-hash-ordered-collection')
            if isinstance(f, ast.Attribute) and f.attr == 'pop' and not node.args and self.is_set(f.value):
                self.site(node, 'set.pop')
            if isinstance(f, ast.Name) and f.id in ('min', 'max') and node.keywords and node.args and \
                    self.unordered(node.args[0]):
                self.site(node, 'min/max-with-key-over-hash-ordered-collection (ties)')
            if isinstance(f, ast.Name) and f.id == 'sorted' and node.keywords and node.args and \
                    self.unordered(node.args[0]) and any(k.arg == 'key' for k in node.keywords):
                self.site(node, 'stable-sort-with-key-over-hash-ordered-collection (ties)')
            if isinstance(f, ast.Attribute) and f.attr == 'join' and node.args and self.unordered(node.args[0]):
                self.site(node, 'join-of-hash-ordered-collection')
            if self._is_output_call(node) and any(self.unordered(a) for a in node.args):
                self.site(node, 'output-of-hash-ordered-value')
        elif isinstance(node, ast.For) and self.unordered(node.iter):
            for sub in ast.walk(ast.Module(body=node.body, type_ignores=[])):
                if isinstance(sub, (ast.Return, ast.Break)):
                    self.site(node, 'loop-over-hash-ordered-collection-exits-early')
                    break
                if isinstance(sub, (ast.Yield, ast.YieldFrom)):
                    self.site(node, 'loop-over-hash-ordered-collection-yields')
                    break
                if isinstance(sub, ast.Call) and self._is_output_call(sub):
                    self.site(node, 'loop-over-hash-ordered-collection-writes-output')
                    break
        elif isinstance(node, ast.Assign) and isinstance(node.targets[0], (ast.Tuple, ast.List)) and \
                self.unordered(node.value):
            self.site(node, 'unpacking-of-hash-ordered-collection')

    @staticmethod
    def _is_output_call(node) -> bool:
        # what a process prints or writes: print(...), json.dump(s)(...), <file>.write / writelines(...)
        f = node.func
        if isinstance(f, ast.Name) and f.id == 'print':
            return True
        if isinstance(f, ast.Attribute) and f.attr in ('dump', 'dumps') and isinstance(f.value, ast.Name) and \
                f.value.id == 'json':
            return True
        return isinstance(f, ast.Attribute) and f.attr in ('write', 'writelines')

    def _is_key_lookup(self, node) -> bool:
        # d[key] on a tainted *dict* is a look-up by key, not by position: only constant integer indices count
        s = node.slice
        if isinstance(s, ast.Constant) and isinstance(s.value, int):
            return False
        if isinstance(s, ast.UnaryOp) and isinstance(s.operand, ast.Constant):
            return False
        return True


def analyse(repo: str, package: str = 'wn') -> tuple[list[Site], list[Site], dict]:
    """-> (order sinks, module-state writes, stats)"""
    mods = {}
    pkg = os.path.join(repo, package)
    for fn in sorted(os.listdir(pkg)):
        if fn.endswith('.py'):
            mods[f'{package}.{fn[:-3]}'] = ModuleInfo(f'{package}.{fn[:-3]}', os.path.join(pkg, fn))
    order, state = [], []
    nfun = 0
    for m in mods.values():
        for qual, fn in _functions(m.tree):
            nfun += 1
            order += FunctionAnalysis(m, mods, fn, qual).run()
            state += _state_writes(m, fn, qual)
    return order, state, {'modules': len(mods), 'functions': nfun}


def _functions(tree, prefix=''):
    for node in tree.body if hasattr(tree, 'body') else []:
        if isinstance(node, (ast.FunctionDef, ast.AsyncFunctionDef)):
            yield prefix + node.name, node
            yield from _functions(node, prefix + node.name + '.<locals>.')
        elif isinstance(node, ast.ClassDef):
            yield from _functions(node, prefix + node.name + '.')
        elif isinstance(node, (ast.If, ast.For, ast.While, ast.With, ast.Try)):
            yield from _functions(node, prefix)


def _state_writes(m: ModuleInfo, fn, qual) -> list[Site]:
    out = []
    for dec in getattr(fn, 'decorator_list', []):
        d = ast.unparse(dec)
        if 'lru_cache' in d or d.split('(')[0].split('.')[-1] in ('cache', 'cached_property', 'memoize'):
            out.append(Site(m.name, qual, fn.lineno, 'module-state-write', f'@{d.split("(")[0]} (results cached across calls)'))
    local = {n.id for n in ast.walk(fn) if isinstance(n, ast.Name) and isinstance(n.ctx, ast.Store)}
    local |= {a.arg for a in fn.args.args + fn.args.kwonlyargs}
    declared_global = set()
    aliases = {}            # local name -> module-level container it was bound to (x = _cache)
    for n in ast.walk(fn):
        if isinstance(n, ast.Global):
            declared_global.update(n.names)
        if isinstance(n, (ast.Assign, ast.AnnAssign)) and n.value is not None and isinstance(n.value, ast.Name) \
                and n.value.id in m.mutable_globals:
            for t in (n.targets if isinstance(n, ast.Assign) else [n.target]):
                if isinstance(t, ast.Name):
                    aliases[t.id] = n.value.id
    for n in ast.walk(fn):
        if isinstance(n, ast.Global):
            out.append(Site(m.name, qual, n.lineno, 'global-statement', ', '.join(n.names)))
        tgt = None
        if isinstance(n, ast.Call) and isinstance(n.func, ast.Attribute) and \
                n.func.attr in ('append', 'add', 'update', 'setdefault', 'pop', 'clear', 'extend', 'insert', 'remove',
                                'discard', 'popitem', 'appendleft'):
            tgt = n.func.value
        elif isinstance(n, (ast.Assign, ast.AugAssign, ast.Delete)):
            ts = n.targets if isinstance(n, (ast.Assign, ast.Delete)) else [n.target]
            for t in ts:
                if isinstance(t, ast.Subscript):
                    tgt = t.value
        if tgt is not None:
            while isinstance(tgt, ast.Subscript):
                tgt = tgt.value
            if isinstance(tgt, ast.Name) and tgt.id in aliases:
                out.append(Site(m.name, qual, n.lineno, 'module-state-write', aliases[tgt.id]))
            elif isinstance(tgt, ast.Name) and tgt.id in m.mutable_globals and \
                    (tgt.id not in local or tgt.id in declared_global):
                out.append(Site(m.name, qual, n.lineno, 'module-state-write', tgt.id))
    return out
