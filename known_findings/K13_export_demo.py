"""C03 - exporting an installed NON-extension lexicon while one of its extensions is installed too.

The extension uses a documented pattern only (tags / pronunciations on an <ExternalLemma> and on an id-carrying
<ExternalForm>).  wn.export([base]) writes those tags and pronunciations into the BASE lexicon's file
(get_form_tags / get_form_pronunciations are not restricted to the exported lexicon - the mechanism of K1/K13, which
are recorded for C01/C04/C05/C09 only), so load(export(base)) is not equivalent to the base lexicon that was added,
and re-adding the export to an empty database gives a different database than adding the original.

exit 1 + what differs when the property is violated, exit 0 otherwise.
"""
import copy
import os
import shutil
import sys
import tempfile

import wn
from wn import lmf

BASE = {'id': 'b', 'label': 'B', 'language': 'en', 'email': 'e', 'license': 'l', 'version': '1', 'meta': None,
        'entries': [{'id': 'b-e1', 'meta': None,
                     'lemma': {'writtenForm': 'go', 'partOfSpeech': 'v', 'tags': [{'text': 'inf', 'category': 'tense'}]},
                     'forms': [{'id': 'b-f1', 'writtenForm': 'went'}],
                     'senses': [{'id': 'b-s1', 'synset': 'b-ss1', 'meta': None}]}],
        'synsets': [{'id': 'b-ss1', 'ili': '', 'partOfSpeech': 'v', 'meta': None}]}
EXT = {'id': 'x', 'label': 'X', 'language': 'en', 'email': 'e', 'license': 'l', 'version': '1', 'meta': None,
       'extends': {'id': 'b', 'version': '1'},
       'entries': [{'id': 'b-e1', 'external': True,
                    'lemma': {'external': True, 'tags': [{'text': 'x-tag', 'category': 'c'}],
                              'pronunciations': [{'text': 'gou'}]},
                    'forms': [{'id': 'b-f1', 'external': True, 'tags': [{'text': 'past', 'category': 'tense'}]}]}]}


def forms_of(lexicon):
    e = lexicon['entries'][0]
    out = []
    for f in [e['lemma']] + e.get('forms', []):
        out.append((f['writtenForm'], sorted((t['text'], t['category']) for t in f.get('tags', [])),
                    sorted(p['text'] for p in f.get('pronunciations', []))))
    return out


def observe():
    return [(w.id, [(str(f), sorted((t.tag, t.category) for t in f.tags()),
                     sorted(p.value for p in f.pronunciations())) for f in w.forms()])
            for w in wn.Wordnet('b:1').words()]


def main():
    work = tempfile.mkdtemp(prefix='auditF3')
    problems = []
    try:
        # database 0: the base lexicon alone (what "the one that was added" looks like through the API)
        wn.config.data_directory = os.path.join(work, 'd0')
        os.makedirs(wn.config.data_directory, exist_ok=True)
        wn.add_lexical_resource({'lmf_version': '1.1', 'lexicons': [copy.deepcopy(BASE)]}, progress_handler=None)
        obs_original = observe()
        # database 1: base + extension, export the base only
        wn.config.data_directory = os.path.join(work, 'd1')
        os.makedirs(wn.config.data_directory, exist_ok=True)
        wn.add_lexical_resource({'lmf_version': '1.1', 'lexicons': [copy.deepcopy(BASE)]}, progress_handler=None)
        wn.add_lexical_resource({'lmf_version': '1.1', 'lexicons': [copy.deepcopy(EXT)]}, progress_handler=None)
        base_lex = [lx for lx in wn.lexicons() if lx.id == 'b']
        exp = os.path.join(work, 'b.xml')
        wn.export(base_lex, exp, version='1.1')
        back = lmf.load(exp, progress_handler=None)
        if [lx['id'] for lx in back['lexicons']] != ['b']:
            problems.append(f"exported lexicons {[lx['id'] for lx in back['lexicons']]}")
        got, want = forms_of(back['lexicons'][0]), forms_of(BASE)
        if got != want:
            problems.append(f'load(export(b)): forms with tags/pronunciations {got} != added lexicon {want}')
        # database 2: the export re-added to an empty database
        wn.config.data_directory = os.path.join(work, 'd2')
        os.makedirs(wn.config.data_directory, exist_ok=True)
        wn.add(exp, progress_handler=None)
        obs_readded = observe()
        if obs_readded != obs_original:
            problems.append(f're-added export observed as {obs_readded}, the lexicon that was added as {obs_original}')
    finally:
        shutil.rmtree(work, ignore_errors=True)
    if problems:
        print('C03 violated:')
        for p in problems:
            print('  -', p)
        return 1
    print('ok: the export of the base lexicon holds the base lexicon only')
    return 0


if __name__ == '__main__':
    sys.exit(main())
