"""C15 - information content is not propagated to a hypernym of another part of speech.

Hypernym graph:  n1 (noun) -> v1 (verb);  v2 (verb) unrelated.   Corpus: noun1 (word of n1), verb2 x 2 (word of v2).
Statement: each synset gets smoothing + the weight of every corpus word synset that is the synset itself or one of
whose hypernym ancestors it is; weights never decrease going up the taxonomy; information content is never larger
for a hypernym than for its hyponym.  compute() only adds to ancestors found in the weight table of the WORD synset's
part of speech (`if ss.id in freq[pos]`), so v1 keeps the bare smoothing value.
Exit status 1 when violated, 0 otherwise.
"""
import os
import shutil
import sys
import tempfile

import wn
work = tempfile.mkdtemp(prefix='auditE4_')
wn.config.data_directory = os.path.join(work, 'data')
os.makedirs(wn.config.data_directory, exist_ok=True)
import wn.ic            # noqa: E402

XML = '''<?xml version="1.0" encoding="UTF-8"?>
<!DOCTYPE LexicalResource SYSTEM "http://globalwordnet.github.io/schemas/WN-LMF-1.0.dtd">
<LexicalResource xmlns:dc="http://purl.org/dc/elements/1.1/">
<Lexicon id="x" label="x" language="en" email="e@x" license="l" version="1">
<LexicalEntry id="x-w1"><Lemma writtenForm="noun1" partOfSpeech="n"/><Sense id="x-s1" synset="x-n1"/></LexicalEntry>
<LexicalEntry id="x-w2"><Lemma writtenForm="verb2" partOfSpeech="v"/><Sense id="x-s2" synset="x-v2"/></LexicalEntry>
<Synset id="x-n1" ili="" partOfSpeech="n"><SynsetRelation target="x-v1" relType="hypernym"/></Synset>
<Synset id="x-v1" ili="" partOfSpeech="v"><SynsetRelation target="x-n1" relType="hyponym"/></Synset>
<Synset id="x-v2" ili="" partOfSpeech="v"/>
</Lexicon>
</LexicalResource>
'''
problems = []
try:
    src = os.path.join(work, 'src.xml')
    with open(src, 'w') as fh:
        fh.write(XML)
    wn.add(src, progress_handler=None)
    w = wn.Wordnet('x:1')
    n1, v1 = w.synset('x-n1'), w.synset('x-v1')
    assert n1.hypernyms() == [v1]
    for distribute in (True, False):
        freq = wn.ic.compute(['noun1', 'verb2', 'verb2'], w, distribute_weight=distribute, smoothing=1.0)
        w_n1 = freq['n']['x-n1']
        w_v1 = freq['v']['x-v1']
        # specification from the statement: v1 is a hypernym ancestor of the word synset n1 -> smoothing + 1
        if w_v1 != 2.0:
            problems.append(f'C15 distribute_weight={distribute}: weight(v1) = {w_v1}, expected smoothing + count(noun1) '
                            f'= 2.0 (v1 is the hypernym of n1, the synset of the corpus word noun1); freq = {freq}')
        if w_v1 < w_n1:
            problems.append(f'C15 distribute_weight={distribute}: weights decrease going up the taxonomy: '
                            f'weight(n1) = {w_n1} > weight(v1) = {w_v1}')
        ic_n1, ic_v1 = wn.ic.information_content(n1, freq), wn.ic.information_content(v1, freq)
        if ic_v1 > ic_n1 + 1e-12:
            problems.append(f'C15 distribute_weight={distribute}: information content of the hypernym v1 ({ic_v1}) is '
                            f'larger than that of its hyponym n1 ({ic_n1})')
finally:
    shutil.rmtree(work, ignore_errors=True)
if problems:
    print('property violated:')
    for p in problems:
        print(' -', p)
    sys.exit(1)
print('ok')
