import tempfile, wn
d=tempfile.mkdtemp(); wn.config.data_directory=d
wn.add(__import__('os').path.dirname(__import__('os').path.abspath(__file__)) + '/F4_demo.xml', progress_handler=None)
s = wn.sense('f4-a-n-1')
print('get_related_synsets():', s.get_related_synsets(), ' get_related_synsets("domain_topic"):', s.get_related_synsets('domain_topic'))
assert s.get_related_synsets() == s.get_related_synsets('domain_topic') != []
print('PASS')
