"""C13/C14 - simulate_root does not join the roots of a wordnet that covers two lexicons.

wn.Wordnet('t:1 u:1') presents one hypernym graph: a -> r (lexicon t),  b -> q (lexicon u); two roots r and q, nothing
shared.  Statement: shortest_path is "an error when nothing is shared UNLESS simulate_root joins all roots"; with
simulate_root=True the graph-theoretic answer is a, r, *ROOT*, q, b (length 4), common_hypernyms = {*ROOT*},
path similarity 1/5, wup defined.  The fake root is built per start synset with that synset's lexicon rowid, which
Synset.__hash__ includes, so the two fake roots never meet in the set intersection.
(docs/api/wn.similarity.rst warns of "surprising results" for synsets of different lexicons.)
Exit status 1 when violated, 0 otherwise.
"""
import os
import shutil
import sys
import tempfile

import wn
work = tempfile.mkdtemp(prefix='auditE6_')
wn.config.data_directory = os.path.join(work, 'data')
os.makedirs(wn.config.data_directory, exist_ok=True)
import wn.taxonomy      # noqa: E402
import wn.similarity    # noqa: E402

XML = '''<?xml version="1.0" encoding="UTF-8"?>
<!DOCTYPE LexicalResource SYSTEM "http://globalwordnet.github.io/schemas/WN-LMF-1.0.dtd">
<LexicalResource xmlns:dc="http://purl.org/dc/elements/1.1/">
<Lexicon id="t" label="t" language="en" email="e@x" license="l" version="1">
<Synset id="t-a" ili="" partOfSpeech="n"><SynsetRelation target="t-r" relType="hypernym"/></Synset>
<Synset id="t-r" ili="" partOfSpeech="n"><SynsetRelation target="t-a" relType="hyponym"/></Synset>
</Lexicon>
<Lexicon id="u" label="u" language="en" email="e@x" license="l" version="1">
<Synset id="u-b" ili="" partOfSpeech="n"><SynsetRelation target="u-q" relType="hypernym"/></Synset>
<Synset id="u-q" ili="" partOfSpeech="n"><SynsetRelation target="u-b" relType="hyponym"/></Synset>
</Lexicon>
</LexicalResource>
'''
problems = []
try:
    src = os.path.join(work, 'src.xml')
    with open(src, 'w') as fh:
        fh.write(XML)
    wn.add(src, progress_handler=None)
    w = wn.Wordnet('t:1 u:1')
    a, b = w.synset('t-a'), w.synset('u-b')
    assert sorted(s.id for s in wn.taxonomy.roots(w)) == ['t-r', 'u-q']
    try:
        sp = [s.id for s in a.shortest_path(b, simulate_root=True)]
        if len(sp) != 4:
            problems.append(f'C13 shortest_path(a, b, simulate_root=True) = {sp}, expected length 4')
    except wn.Error as exc:
        problems.append(f'C13 shortest_path(a, b, simulate_root=True) raises wn.Error({exc}) although simulate_root is '
                        f'set; expected [t-r, *ROOT*, u-q, u-b]')
    ch = [s.id for s in a.common_hypernyms(b, simulate_root=True)]
    if ch != ['*ROOT*']:
        problems.append(f'C13 common_hypernyms(a, b, simulate_root=True) = {ch}, expected [*ROOT*]')
    p = wn.similarity.path(a, b, simulate_root=True)
    if abs(p - 1 / 5) > 1e-12:
        problems.append(f'C14 path(a, b, simulate_root=True) = {p}, expected 1/(4+1) = 0.2')
    try:
        wn.similarity.wup(a, b, simulate_root=True)
    except wn.Error as exc:
        problems.append(f'C14 wup(a, b, simulate_root=True) raises wn.Error({exc}) although simulate_root is set')
finally:
    shutil.rmtree(work, ignore_errors=True)
if problems:
    print('property violated:')
    for p in problems:
        print(' -', p)
    sys.exit(1)
print('ok')
