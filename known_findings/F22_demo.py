"""C08: wn.remove('a:3 a') removes a lexicon that is matched by NONE of the given specifiers.

find_lexicons() is a generator; wn.remove() deletes inside the loop over it, so the statement of the 2nd specifier
runs on the database AFTER the lexicons selected by the 1st one have been deleted.  With versions a:1, a:2, a:3
installed in that order, the list 'a:3 a' selects (documented; also what wn.lexicons()/wn.Wordnet() return) the union
{a:3} u {most recently added a = a:3} = {a:3}; wn.remove('a:3 a') removes a:3 AND a:2 ('a' is resolved again once
a:3 is gone).  Same for 'a a'.
"""
import os, shutil, sys, tempfile
import wn

tmp = tempfile.mkdtemp(prefix='audit_A_2_')
wn.config.data_directory = tmp

DOC = '''<?xml version="1.0" encoding="UTF-8"?>
<!DOCTYPE LexicalResource SYSTEM "http://globalwordnet.github.io/schemas/WN-LMF-1.0.dtd">
<LexicalResource xmlns:dc="http://purl.org/dc/elements/1.1/">
  <Lexicon id="{id}" label="L" language="en" email="a@b" license="l" version="{ver}">
    <LexicalEntry id="{id}-w"><Lemma writtenForm="w" partOfSpeech="n"/></LexicalEntry>
  </Lexicon>
</LexicalResource>'''


def add(lid, ver):
    p = os.path.join(tmp, 'doc.xml')
    with open(p, 'w', encoding='utf-8') as f:
        f.write(DOC.format(id=lid, ver=ver))
    wn.add(p, progress_handler=None)


def installed():
    return [lx.specifier() for lx in wn.lexicons()]


bad = []
try:
    for spec in ('a:3 a', 'a a', 'a:3 a*'):
        if installed():
            wn.remove('*', progress_handler=None)
        for lid, ver in (('a', '1'), ('a', '2'), ('a', '3'), ('b', '1')):
            add(lid, ver)
        before = installed()
        selected = [lx.specifier() for lx in wn.lexicons(lexicon=spec)]      # the documented selection
        also = [lx.specifier() for lx in wn.Wordnet(lexicon=spec).lexicons()]
        wn.remove(spec, progress_handler=None)
        after = installed()
        removed = [s for s in before if s not in after]
        print(f'installed {before}; specifier {spec!r} selects {selected} (Wordnet: {also}); '
              f'wn.remove({spec!r}) removed {removed}')
        if sorted(removed) != sorted(selected):
            bad.append(f'wn.remove({spec!r}) removed {removed} but the specifier list selects {selected}: '
                       f'{[s for s in removed if s not in selected]} is matched by none of the given specifiers')
finally:
    import wn._db
    for c in list(wn._db.pool.values()):
        c.close()
    wn._db.pool.clear()
    shutil.rmtree(tmp, ignore_errors=True)

if bad:
    print('PROPERTY VIOLATED (C08):')
    for b in bad:
        print('  -', b)
    sys.exit(1)
print('ok')
