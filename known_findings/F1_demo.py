"""F1 (C18): validate() raised KeyError when a hypernym relation points to a synset that does not exist."""
import wn.validate
lex = {'id': 'x', 'version': '1', 'label': 'l', 'language': 'en', 'email': 'e', 'license': 'l', 'meta': None,
       'synsets': [{'id': 'x-1', 'ili': '', 'partOfSpeech': 'n', 'meta': None,
                    'relations': [{'target': 'x-missing', 'relType': 'hypernym', 'meta': None}]}]}
report = wn.validate.validate(lex, progress_handler=None)
assert report['E401']['items'] == {'x-1': {'type': 'hypernym', 'target': 'x-missing'}}
assert report['W501']['items'] == {}
print('PASS')
