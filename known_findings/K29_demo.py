"""C01 "every sense ... with its ... subcategorization frames": _collect_frames keys the lexicon's syntactic
behaviours by their frame STRING.  A structurally valid WN-LMF >= 1.1 lexicon with two <SyntacticBehaviour>
elements that have different ids but the same subcategorizationFrame text (e.g. a 1.0 -> 1.1 conversion that
gives every former entry-level frame its own id) is collapsed into the LAST one:
  (a) links given with `senses=` on the first element are silently lost (sense s0 reports no frame);
  (b) links given with Sense@subcat to the first id make wn.add raise KeyError.
  (c) (related) an entry-level <SyntacticBehaviour id=..> referenced by Sense@subcat raises KeyError as well
      (id_senses_map is built from lexicon-level frames only).
"""
import os, shutil, sys, tempfile
import wn
import wn._db

HEAD = ('<?xml version="1.0" encoding="UTF-8"?>\n'
        '<!DOCTYPE LexicalResource SYSTEM "http://globalwordnet.github.io/schemas/WN-LMF-1.1.dtd">\n'
        '<LexicalResource xmlns:dc="https://globalwordnet.github.io/schemas/dc/">\n')
ATTR = 'label="x" language="en" email="a@b.c" license="l" version="1"'
FRAME = 'Somebody ----s something'


def doc(sense_attrs, frames, entry_frames=''):
    return HEAD + f'''<Lexicon id="b" {ATTR}>
<LexicalEntry id="b-w1"><Lemma writtenForm="w1" partOfSpeech="v"/>
  <Sense id="b-s0" synset="b-ss1" {sense_attrs[0]}/><Sense id="b-s1" synset="b-ss1" {sense_attrs[1]}/>{entry_frames}</LexicalEntry>
<Synset id="b-ss1" ili="i1" partOfSpeech="v"/>
{frames}
</Lexicon></LexicalResource>
'''


CASES = {
    'a: senses= on both frames': doc(('', ''),
        f'<SyntacticBehaviour id="f1" subcategorizationFrame="{FRAME}" senses="b-s0"/>'
        f'<SyntacticBehaviour id="f2" subcategorizationFrame="{FRAME}" senses="b-s1"/>'),
    'b: Sense@subcat': doc(('subcat="f1"', 'subcat="f2"'),
        f'<SyntacticBehaviour id="f1" subcategorizationFrame="{FRAME}"/>'
        f'<SyntacticBehaviour id="f2" subcategorizationFrame="{FRAME}"/>'),
    'c: entry-level frame with id + Sense@subcat': doc(('subcat="f1"', 'subcat="f1"'), '',
        f'<SyntacticBehaviour id="f1" subcategorizationFrame="{FRAME}"/>'),
}
WANT = {'b-s0': [FRAME], 'b-s1': [FRAME]}
rc = 0
for name, text in CASES.items():
    d = tempfile.mkdtemp()
    wn.config.data_directory = d
    try:
        p = os.path.join(d, 'b.xml')
        open(p, 'w', encoding='utf-8').write(text)
        try:
            wn.add(p, progress_handler=None)
        except Exception as exc:      # noqa: BLE001
            rc = 1
            print(f'[{name}] wn.add of the valid document raised {type(exc).__name__}: {exc}')
            continue
        got = {s.id: s.frames() for s in wn.Wordnet('b').senses()}
        if got != WANT:
            rc = 1
            print(f'[{name}] Sense.frames(): reported {got}\n{" " * len(name)}                   document {WANT}')
    finally:
        for c in wn._db.pool.values():
            c.close()
        wn._db.pool.clear()
        shutil.rmtree(d, ignore_errors=True)
print('VIOLATED' if rc else 'ok')
sys.exit(rc)
