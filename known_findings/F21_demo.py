"""A lemmatizer that proposes a part of speech with NO forms ({'n': set()}) proposes no (pos, form) pair; the search
must then fall back to the query itself.  _find_helper only tests `if not forms:` on the dict, calls the query with an
empty form collection, and the query functions treat an empty collection as "no form filter": every noun is returned."""
import sys, tempfile, shutil
from pathlib import Path
import wn
XML = '''<?xml version="1.0" encoding="UTF-8"?>
<!DOCTYPE LexicalResource SYSTEM "http://globalwordnet.github.io/schemas/WN-LMF-1.0.dtd">
<LexicalResource xmlns:dc="http://purl.org/dc/elements/1.1/">
<Lexicon id="k" label="k" language="en" email="a@b.c" license="l" version="1">
<LexicalEntry id="k-cat-n"><Lemma partOfSpeech="n" writtenForm="cat"/><Sense id="k-cat-n-1" synset="k-1-n"/></LexicalEntry>
<LexicalEntry id="k-dog-n"><Lemma partOfSpeech="n" writtenForm="dog"/><Sense id="k-dog-n-1" synset="k-2-n"/></LexicalEntry>
<Synset id="k-1-n" ili="" partOfSpeech="n"/><Synset id="k-2-n" ili="" partOfSpeech="n"/>
</Lexicon></LexicalResource>'''
d = tempfile.mkdtemp()
try:
    wn.config.data_directory = d
    p = Path(d) / 'k.xml'; p.write_text(XML)
    wn.add(p, progress_handler=None)
    w = wn.Wordnet('k:1', lemmatizer=lambda form, pos: {'n': set()})
    got = [x.id for x in w.words('cat')]
    got2 = [x.id for x in w.words('zebra')]
    print('words(cat) =', got, ' words(zebra) =', got2)
    ok = got == ['k-cat-n'] and got2 == []
    print('PASS' if ok else 'FAIL')
    sys.exit(0 if ok else 1)
finally:
    shutil.rmtree(d, ignore_errors=True)
