"""K14 (wup depends on the order of an unordered list) and K15 (res uses the least informative LCS): witnesses on
the real wn.similarity / wn.taxonomy functions over a stub hypernym graph (Synset.get_related = adjacency)."""
import sys
sys.path.insert(0, __import__('os').path.dirname(__import__('os').path.dirname(__import__('os').path.abspath(__file__))))
from bounded.graphs import build
from wn import similarity, taxonomy
import wn.ic

# nodes: 0=a 1=b 2=c1 3=x 4=c2 5=r        a->c1, b->c1, a->x->c2, b->c2, c1->r, c2->r
graph = ((2, 3), (2, 4), (5,), (4,), (5,), ())
nodes, w = build(graph)
a, b = nodes[0], nodes[1]
lcs = taxonomy.lowest_common_hypernyms(a, b)
vals = set()
for c in lcs:
    i, j, k = len(a.shortest_path(c)), len(b.shortest_path(c)), c.max_depth() + 1
    vals.add(round(2 * k / (i + j + 2 * k), 6))
print('lowest common hypernyms:', [c.id for c in lcs], ' wup value per choice:', sorted(vals),
      ' wup(a,b) =', similarity.wup(a, b), ' wup(b,a) =', similarity.wup(b, a))
assert len(vals) > 1, 'K14: the formula gives different values for the two lowest common hypernyms'

# K15: a->c1, a->c2, b->c1, b->c2 (two roots); a third synset d->c1 carries the corpus counts
graph2 = ((2, 3), (2, 3), (), (), (2,))
nodes2, w2 = build(graph2)
w2.words = {'d': [4], 'a': [0], 'b': [1]}
freq = wn.ic.compute(['d', 'd', 'd', 'a', 'b'], w2)
a2, b2 = nodes2[0], nodes2[1]
ics = {c.id: wn.ic.information_content(c, freq) for c in taxonomy.lowest_common_hypernyms(a2, b2)}
res = similarity.res(a2, b2, freq)
print('IC of the lowest common hypernyms:', ics, ' res =', res)
assert res == min(ics.values()) and res < max(ics.values()), 'K15: res returns the LEAST informative one'
print('DEMONSTRATED')
