"""F2 (fixed by b1b9847): Example metadata was lost by lmf.dump. Run: /venv/bin/python F2_demo.py  (prints the
reloaded metadata; before the fix: None)."""
import tempfile, os
from wn import lmf
res = {'lmf_version': '1.0', 'lexicons': [{
    'id': 'l', 'label': 'L', 'language': 'en', 'email': 'e', 'license': 'x', 'version': '1', 'meta': None,
    'synsets': [{'id': 'l-s', 'ili': '', 'meta': None,
                 'examples': [{'text': 'an example', 'meta': {'source': 'the source'}}]}]}]}
d = tempfile.mkdtemp()
p = os.path.join(d, 'x.xml')
lmf.dump(res, p)
print(lmf.load(p, progress_handler=None)['lexicons'][0]['synsets'][0]['examples'][0]['meta'])
