"""C11: relation_map() loses a declared relation (and its metadata) when two relations of the same type to the
same target differ in metadata OTHER than dc:type (here dc:source / confidenceScore).

Synset a declares   hypernym -> b  dc:source="survey-1"  confidenceScore="0.9"
                    hypernym -> b  dc:source="survey-2"  confidenceScore="0.2"
and the sense a-1   antonym  -> b-1 with the same two annotations.
Both rows are stored and both are returned by the SQL (DISTINCT keeps them because the metadata differ), but
Relation.__eq__/__hash__ only look at (name, source, target, lexicon, dc:type), so dict(...) keeps one entry:
the second declared relation and its metadata are not reported by relation_map().
"""
import os, shutil, sys, tempfile
import wn
tmp = tempfile.mkdtemp()
wn.config.data_directory = tmp
HEAD = '<?xml version="1.0" encoding="UTF-8"?>\n<!DOCTYPE LexicalResource SYSTEM "http://globalwordnet.github.io/schemas/WN-LMF-1.1.dtd">\n<LexicalResource xmlns:dc="https://globalwordnet.github.io/schemas/dc/">\n'
LEX = HEAD + '''<Lexicon id="lx" label="lx" language="en" email="a@b.c" license="l" version="1">
  <LexicalEntry id="lx-a-n"><Lemma partOfSpeech="n" writtenForm="a"/>
    <Sense id="lx-a-1" synset="lx-a">
      <SenseRelation relType="antonym" target="lx-b-1" dc:source="survey-1" confidenceScore="0.9"/>
      <SenseRelation relType="antonym" target="lx-b-1" dc:source="survey-2" confidenceScore="0.2"/>
    </Sense></LexicalEntry>
  <LexicalEntry id="lx-b-n"><Lemma partOfSpeech="n" writtenForm="b"/>
    <Sense id="lx-b-1" synset="lx-b"/></LexicalEntry>
  <Synset id="lx-a" ili="i1" partOfSpeech="n">
    <SynsetRelation relType="hypernym" target="lx-b" dc:source="survey-1" confidenceScore="0.9"/>
    <SynsetRelation relType="hypernym" target="lx-b" dc:source="survey-2" confidenceScore="0.2"/>
  </Synset>
  <Synset id="lx-b" ili="i2" partOfSpeech="n"/>
</Lexicon></LexicalResource>'''
bad = []
try:
    p = os.path.join(tmp, 'lx.xml')
    with open(p, 'w', encoding='utf-8') as fh:
        fh.write(LEX)
    wn.add(p, progress_handler=None)
    declared = [('survey-1', '0.9'), ('survey-2', '0.2')]
    for scope in ({}, {'lexicon': 'lx:1'}):
        for what, ent in (('Synset', wn.synset('lx-a', **scope)), ('Sense', wn.sense('lx-a-1', **scope))):
            rm = ent.relation_map()
            got = sorted((r.metadata().get('source'), str(r.metadata().get('confidenceScore'))) for r in rm)
            if got != declared:
                bad.append(f'{what}.relation_map() [{scope or "default mode"}]: declared relations (dc:source, confidenceScore) '
                           f'= {declared}; reported = {got}  ({len(rm)} of 2 relations)')
finally:
    shutil.rmtree(tmp, ignore_errors=True)
if bad:
    print('VIOLATION (C11 "return exactly the relations declared ... each with the right ... metadata"):')
    print('\n'.join(bad))
    sys.exit(1)
print('ok')
