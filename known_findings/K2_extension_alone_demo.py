"""C10 (lower rank - see report): in a Wordnet that selects an extension alone, the senses the extension attaches to
entries / synsets of its base cannot navigate to their word / synset: Sense.word() / Sense.synset() raise wn.Error.

Sense.word() re-queries the entry BY IDENTIFIER inside the Wordnet's lexicons (Wordnet.word -> find_entries(id=...,
lexicon_rowids=S)); the entry under which the sense was declared is owned by the base lexicon, which is not in S.
The sense itself is a legitimate result of Wordnet('ext:1').senses().
"""
import os, shutil, sys, tempfile
import wn

tmp = tempfile.mkdtemp(prefix='audit_A_5_')
wn.config.data_directory = tmp

HEAD = ('<?xml version="1.0" encoding="UTF-8"?>\n'
        '<!DOCTYPE LexicalResource SYSTEM "http://globalwordnet.github.io/schemas/WN-LMF-1.1.dtd">\n'
        '<LexicalResource xmlns:dc="http://globalwordnet.github.io/schemas/dc/">\n')
BASE = HEAD + '''
<Lexicon id="base" label="base" language="en" email="a@b" license="l" version="1">
  <LexicalEntry id="base-illustrate-v"><Lemma writtenForm="illustrate" partOfSpeech="v"/>
    <Sense id="base-illustrate-v-1" synset="base-0001-v"/></LexicalEntry>
  <Synset id="base-0001-v" ili="i1" partOfSpeech="v"/>
</Lexicon></LexicalResource>'''
EXT = HEAD + '''
<LexiconExtension id="ext" label="ext" language="en" email="a@b" license="l" version="1">
  <Extends id="base" version="1"/>
  <ExternalLexicalEntry id="base-illustrate-v">
    <Sense id="ext-illustrate-v-2" synset="ext-0002-v"/>
  </ExternalLexicalEntry>
  <LexicalEntry id="ext-depict-v"><Lemma writtenForm="depict" partOfSpeech="v"/>
    <Sense id="ext-depict-v-1" synset="base-0001-v"/></LexicalEntry>
  <ExternalSynset id="base-0001-v"/>
  <Synset id="ext-0002-v" ili="i2" partOfSpeech="v"/>
</LexiconExtension></LexicalResource>'''

bad = []
try:
    for text in (BASE, EXT):
        p = os.path.join(tmp, 'doc.xml')
        with open(p, 'w', encoding='utf-8') as f:
            f.write(text)
        wn.add(p, progress_handler=None)
    declared = {'ext-illustrate-v-2': ('base-illustrate-v', 'ext-0002-v'),
                'ext-depict-v-1': ('ext-depict-v', 'base-0001-v')}
    w = wn.Wordnet('ext:1')                       # single lexicon selected: the extension
    for s in w.senses():
        want_word, want_synset = declared[s.id]
        for what, nav, want in (('word', s.word, want_word), ('synset', s.synset, want_synset)):
            try:
                got = nav().id
            except wn.Error as exc:
                got = f'wn.Error({exc})'
            print(f'Wordnet("ext:1"): {s.id}.{what}() -> {got}   (declared: {want})')
            if got != want:
                bad.append(f'{s.id}.{what}() = {got}, the sense was declared under / references {want}')
    # the same senses in default mode and with base+ext selected navigate correctly
    for wx, label in ((wn.Wordnet(), 'default mode'), (wn.Wordnet('base:1 ext:1'), 'base+ext')):
        for sid, (ww, ws) in declared.items():
            s = wx.sense(sid)
            assert (s.word().id, s.synset().id) == (ww, ws), (label, sid)
finally:
    import wn._db
    for c in list(wn._db.pool.values()):
        c.close()
    wn._db.pool.clear()
    shutil.rmtree(tmp, ignore_errors=True)

if bad:
    print('PROPERTY VIOLATED (C10 sense.word()/sense.synset(), selection = the extension alone):')
    for b in bad:
        print('  -', b)
    sys.exit(1)
print('ok')
