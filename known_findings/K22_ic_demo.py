"""C14 - res / jcn / lin raise KeyError when the lowest common hypernym is a synset inferred through an expand lexicon.

Hypernym graph (the same in both wordnets):   a -> c,  b -> c,  c -> d,  d -> r
  * lexicon t stores the five synsets and the four hypernym relations itself
  * lexicon u stores only a and b (ILIs i1, i2); wn.Wordnet('u:1', expand='t:1') borrows the relations of t through
    the ILIs, so c, d, r are '*INFERRED*' placeholder synsets (all with rowid 0, told apart by their ILI)
wn.ic.compute() accepts such a wordnet (docs/api/wn.ic.rst: "it may have expand-lexicons for relation traversal") and
returns weights for the stored synsets only.  a and b have a common hypernym (c), so res/jcn/lin must return the value
of their formula (or at most wn.Error); they raise KeyError('*INFERRED*').
Exit status 1 and a list of differences when the library violates the property, 0 otherwise.
"""
import os
import shutil
import sys
import tempfile

import wn
work = tempfile.mkdtemp(prefix='auditE1_')
wn.config.data_directory = os.path.join(work, 'data')
os.makedirs(wn.config.data_directory, exist_ok=True)
import wn.taxonomy      # noqa: E402
import wn.similarity    # noqa: E402
import wn.ic            # noqa: E402

XML = '''<?xml version="1.0" encoding="UTF-8"?>
<!DOCTYPE LexicalResource SYSTEM "http://globalwordnet.github.io/schemas/WN-LMF-1.0.dtd">
<LexicalResource xmlns:dc="http://purl.org/dc/elements/1.1/">
<Lexicon id="t" label="t" language="en" email="e@x" license="l" version="1">
<LexicalEntry id="t-wa"><Lemma writtenForm="worda" partOfSpeech="n"/><Sense id="t-sa" synset="t-a"/></LexicalEntry>
<LexicalEntry id="t-wb"><Lemma writtenForm="wordb" partOfSpeech="n"/><Sense id="t-sb" synset="t-b"/></LexicalEntry>
<Synset id="t-a" ili="i1" partOfSpeech="n"><SynsetRelation target="t-c" relType="hypernym"/></Synset>
<Synset id="t-b" ili="i2" partOfSpeech="n"><SynsetRelation target="t-c" relType="hypernym"/></Synset>
<Synset id="t-c" ili="i3" partOfSpeech="n"><SynsetRelation target="t-d" relType="hypernym"/><SynsetRelation target="t-a" relType="hyponym"/><SynsetRelation target="t-b" relType="hyponym"/></Synset>
<Synset id="t-d" ili="i4" partOfSpeech="n"><SynsetRelation target="t-r" relType="hypernym"/><SynsetRelation target="t-c" relType="hyponym"/></Synset>
<Synset id="t-r" ili="i5" partOfSpeech="n"><SynsetRelation target="t-d" relType="hyponym"/></Synset>
</Lexicon>
<Lexicon id="u" label="u" language="en" email="e@x" license="l" version="1">
<LexicalEntry id="u-wa"><Lemma writtenForm="ua" partOfSpeech="n"/><Sense id="u-sa" synset="u-a"/></LexicalEntry>
<LexicalEntry id="u-wb"><Lemma writtenForm="ub" partOfSpeech="n"/><Sense id="u-sb" synset="u-b"/></LexicalEntry>
<Synset id="u-a" ili="i1" partOfSpeech="n"/>
<Synset id="u-b" ili="i2" partOfSpeech="n"/>
</Lexicon>
</LexicalResource>
'''

problems = []
try:
    src = os.path.join(work, 'src.xml')
    with open(src, 'w') as fh:
        fh.write(XML)
    wn.add(src, progress_handler=None)
    wt = wn.Wordnet('t:1')
    wx = wn.Wordnet('u:1', expand='t:1')
    ta, tb = wt.synset('t-a'), wt.synset('t-b')
    ua, ub = wx.synset('u-a'), wx.synset('u-b')
    ft = wn.ic.compute(['worda', 'wordb', 'wordb'], wt)
    fx = wn.ic.compute(['ua', 'ub', 'ub'], wx)          # works (fix F14): weights of the stored synsets u-a, u-b
    assert fx['n'] == {'u-a': 2.0, 'u-b': 3.0, None: 4.0}, fx
    assert [s._ili for s in ua.lowest_common_hypernyms(ub)] == ['i3']       # there IS a common hypernym
    for fn in (wn.similarity.res, wn.similarity.jcn, wn.similarity.lin):
        ref = fn(ta, tb, ft)
        try:
            got = fn(ua, ub, fx)
        except wn.Error as exc:
            problems.append(f'C14 {fn.__name__}(a, b): wn.Error({exc}) although a and b have a common hypernym '
                            f'(stored graph: {ref})')
        except Exception as exc:       # noqa: BLE001
            problems.append(f'C14 {fn.__name__}(a, b) raises {type(exc).__name__}({exc}) in the expanded wordnet; the '
                            f'same graph stored in one lexicon gives {ref}')
        else:
            print(fn.__name__, got, '(stored graph:', ref, ')')
finally:
    shutil.rmtree(work, ignore_errors=True)

if problems:
    print('property violated:')
    for p in problems:
        print(' -', p)
    sys.exit(1)
print('ok')
