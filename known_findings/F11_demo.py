"""F11 (C19): an ILI file whose only column is `ili` was not recognised (the header's line ending was kept)."""
import os, tempfile, wn, wn._ili
wn.config.data_directory = tempfile.mkdtemp()
path = os.path.join(wn.config.data_directory, 'ili.tsv')
open(path, 'w').write('ili\ni1\ni2\n')
assert wn._ili.is_ili(path), 'single-column ILI file not recognised'
wn.add(path, progress_handler=None)
import sqlite3
rows = sqlite3.connect(wn.config.database_path).execute('select id from ilis order by id').fetchall()
assert rows == [('i1',), ('i2',)], rows
print('PASS')
