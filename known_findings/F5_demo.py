"""F5 (C07/C01): _collect_frames appended to the resource's own `senses` list of a lexicon-level frame."""
import copy, tempfile, wn, wn._add as A
wn.config.data_directory = tempfile.mkdtemp()
lex = {'id': 'x', 'version': '1', 'label': 'l', 'language': 'en', 'email': 'e', 'license': 'l', 'meta': None,
       'entries': [{'id': 'e1', 'meta': None, 'lemma': {'writtenForm': 'w', 'partOfSpeech': 'n'},
                    'senses': [{'id': 's11', 'synset': 'ss', 'meta': None, 'subcat': ['f1']}]}],
       'synsets': [{'id': 'ss', 'ili': '', 'partOfSpeech': 'n', 'meta': None}],
       'frames': [{'id': 'f1', 'subcategorizationFrame': 'F1', 'senses': ['s11']}]}
res = {'lmf_version': '1.1', 'lexicons': [lex]}
before = copy.deepcopy(res)
wn.add_lexical_resource(res, progress_handler=None)
assert res == before, 'in-memory resource was modified by add_lexical_resource'
print('PASS')
