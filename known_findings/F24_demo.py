"""C10: an existing ILI and a proposed ILI - different entities - compare equal and hash alike.

wn.ILI does not set _ENTITY_TYPE (it stays UNSET) and its _id is the rowid of *either* table `ilis` *or* table
`proposed_ilis`; _DatabaseEntity.__eq__/__hash__ use only (_ENTITY_TYPE, _id).  The first existing ILI (ilis.rowid 1)
and the first proposed ILI (proposed_ilis.rowid 1) are therefore ==, and a set / dict of the ILIs of a wordnet loses
one of them.
"""
import os, shutil, sys, tempfile
import wn

tmp = tempfile.mkdtemp(prefix='audit_A_4_')
wn.config.data_directory = tmp

DOC = '''<?xml version="1.0" encoding="UTF-8"?>
<!DOCTYPE LexicalResource SYSTEM "http://globalwordnet.github.io/schemas/WN-LMF-1.1.dtd">
<LexicalResource xmlns:dc="http://globalwordnet.github.io/schemas/dc/">
<Lexicon id="i" label="i" language="en" email="a@b" license="l" version="1">
  <LexicalEntry id="i-a-n"><Lemma writtenForm="a" partOfSpeech="n"/>
    <Sense id="i-a-n-1" synset="i-1-n"/><Sense id="i-a-n-2" synset="i-2-n"/></LexicalEntry>
  <Synset id="i-1-n" ili="i90001" partOfSpeech="n"/>
  <Synset id="i-2-n" ili="in" partOfSpeech="n"><ILIDefinition>a newly proposed concept</ILIDefinition></Synset>
</Lexicon></LexicalResource>'''

bad = []
try:
    p = os.path.join(tmp, 'doc.xml')
    with open(p, 'w', encoding='utf-8') as f:
        f.write(DOC)
    wn.add(p, progress_handler=None)
    w = wn.Wordnet('i:1')
    existing = w.synset('i-1-n').ili          # ILI('i90001'), status presupposed
    proposed = w.synset('i-2-n').ili          # proposed ILI of the other synset
    print('existing:', existing, existing.status, '| proposed:', proposed, proposed.status, proposed.definition())
    all_ilis = w.ilis()
    print('w.ilis() =', all_ilis, ' len(set(...)) =', len(set(all_ilis)))
    if existing == proposed:
        bad.append(f'{existing!r} (status {existing.status}) == {proposed!r} (status {proposed.status}) is True: '
                   'different entities compare equal')
    if len(set(all_ilis)) != len(all_ilis):
        bad.append(f'set(w.ilis()) has {len(set(all_ilis))} element(s) for {len(all_ilis)} distinct ILIs '
                   '(set/dict membership conflates them)')
    if proposed in {existing: 1}:
        bad.append('the proposed ILI is found as a key of a dict holding only the existing ILI')
finally:
    import wn._db
    for c in list(wn._db.pool.values()):
        c.close()
    wn._db.pool.clear()
    shutil.rmtree(tmp, ignore_errors=True)

if bad:
    print('PROPERTY VIOLATED (C10 identity):')
    for b in bad:
        print('  -', b)
    sys.exit(1)
print('ok')
