"""C03: a relation that occurs twice in the added lexicon (same source, type, target, metadata - valid, only warning
W403) is exported once: load(export(db)) has fewer relations than the lexicon that was added (SELECT DISTINCT in
get_synset_relations / get_sense_relations / get_sense_synset_relations; anticipated as "K9" in DESIGN section 5 but
never recorded or tested)."""
import os, shutil, sys, tempfile
import wn
work = tempfile.mkdtemp(prefix='auditD5')
os.makedirs(os.path.join(work, 'db'))
wn.config.data_directory = os.path.join(work, 'db')
from wn import lmf

DOC = '''<?xml version="1.0" encoding="UTF-8"?>
<!DOCTYPE LexicalResource SYSTEM "http://globalwordnet.github.io/schemas/WN-LMF-1.0.dtd">
<LexicalResource xmlns:dc="http://purl.org/dc/elements/1.1/">
  <Lexicon id="l" label="L" language="en" email="e" license="x" version="1">
    <LexicalEntry id="l-e1"><Lemma writtenForm="dog" partOfSpeech="n"/>
      <Sense id="l-s1" synset="l-ss1">
        <SenseRelation relType="antonym" target="l-s2"/><SenseRelation relType="antonym" target="l-s2"/>
      </Sense>
      <Sense id="l-s2" synset="l-ss2"/>
    </LexicalEntry>
    <Synset id="l-ss1" ili="" partOfSpeech="n">
      <SynsetRelation relType="hypernym" target="l-ss2"/><SynsetRelation relType="hypernym" target="l-ss2"/>
    </Synset>
    <Synset id="l-ss2" ili="" partOfSpeech="n"/>
  </Lexicon>
</LexicalResource>
'''
problems = []
try:
    p, q = os.path.join(work, 'f.xml'), os.path.join(work, 'exp.xml')
    open(p, 'w', encoding='utf-8').write(DOC)
    orig = lmf.load(p, progress_handler=None)['lexicons'][0]
    wn.add(p, progress_handler=None)
    wn.export(wn.lexicons(), q, version='1.0')
    back = lmf.load(q, progress_handler=None)['lexicons'][0]
    a, b = orig['synsets'][0]['relations'], back['synsets'][0].get('relations', [])
    if a != b:
        problems.append(f'synset relations of l-ss1: added {len(a)}, exported {len(b)}')
    a, b = orig['entries'][0]['senses'][0]['relations'], back['entries'][0]['senses'][0].get('relations', [])
    if a != b:
        problems.append(f'sense relations of l-s1: added {len(a)}, exported {len(b)}')
finally:
    shutil.rmtree(work, ignore_errors=True)
for x in problems:
    print('VIOLATION', x)
sys.exit(1 if problems else 0)
