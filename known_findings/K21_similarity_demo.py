"""C14 / res, jcn, lin when the lowest common hypernym has another part of speech than the two synsets.
Two NOUN synsets n1, n2 (compatible parts of speech, they share the hypernym v1) -> the statement asks for the value
of the documented formula (or wn.Error for incompatible parts of speech / no common hypernym).  res/jcn/lin look the
weight of the lowest common hypernym up in the table of synset1's part of speech (ic['n'][v1.id]) and raise KeyError.
Data: n1 -> v1 <- n2 (hypernym relations; loadable, wn.validate only warns W501 - the same kind of data as known
finding K21, which is recorded for wn.ic.compute / C15 only).  Weights from wn.ic.compute.
exit 1 = an exception other than wn.Error, 0 = values returned (or wn.Error)."""
import os
import shutil
import sys
sys.path.insert(0, os.path.dirname(os.path.abspath(__file__)))
import _mk          # noqa: E402
work = _mk.make({'n1': ['v1'], 'n2': ['v1'], 'v1': []}, pos={'v1': 'v'}, prefix='tmp3_')
rc = 0
try:
    import wn
    from wn import similarity, ic
    w = wn.Wordnet('t:1')
    n1, n2, v1 = (w.synset(f't-{x}') for x in ('n1', 'n2', 'v1'))
    freq = ic.compute(['wordn1', 'wordn2', 'wordv1'], w)
    print('lowest common hypernyms:', [(s.id, s.pos) for s in n1.lowest_common_hypernyms(n2)],
          ' IC(v1) =', ic.information_content(v1, freq))
    print('path =', similarity.path(n1, n2), ' wup =', similarity.wup(n1, n2))
    for name in ('res', 'jcn', 'lin'):
        try:
            print(name, '=', getattr(similarity, name)(n1, n2, freq))
        except wn.Error as exc:
            print(name, 'raises wn.Error:', exc)
        except Exception as exc:       # noqa: BLE001
            print(f'VIOLATION (C14): {name}(n1, n2) raises {type(exc).__name__}: {exc}')
            rc = 1
finally:
    shutil.rmtree(work, ignore_errors=True)
sys.exit(rc)
