"""C11: closure() does not yield every entity reachable over the given relation types: it marks visited
entities by their id STRING, and all placeholder synsets reached through other lexicons have the id
'*INFERRED*', so everything behind the second placeholder on a chain is never visited.

Lexicon t:  t1(i1) -hypernym-> t2(i2) -hypernym-> t3(i3) -hypernym-> t4(i4)
Lexicon u:  u1(i1)                                                   u4(i4)      (no relations of its own)
Default mode (wn.synset('u-1'): relations are borrowed over all installed lexicons) and Wordnet('u:1', expand='t:1').
get_related('hypernym') chains are  u1 -> INFERRED(i2) -> INFERRED(i3) -> u4 ; hypernym_paths()/relation_paths()
find u4, closure('hypernym') stops after INFERRED(i2).
"""
import os, shutil, sys, tempfile
import wn
tmp = tempfile.mkdtemp()
wn.config.data_directory = tmp
HEAD = '<?xml version="1.0" encoding="UTF-8"?>\n<!DOCTYPE LexicalResource SYSTEM "http://globalwordnet.github.io/schemas/WN-LMF-1.1.dtd">\n<LexicalResource xmlns:dc="https://globalwordnet.github.io/schemas/dc/">\n'
A = 'language="en" email="a@b.c" license="l" version="1"'
DOC = HEAD + f'''<Lexicon id="t" label="t" {A}>
  <Synset id="t-1" ili="i1" partOfSpeech="n"><SynsetRelation relType="hypernym" target="t-2"/></Synset>
  <Synset id="t-2" ili="i2" partOfSpeech="n"><SynsetRelation relType="hypernym" target="t-3"/></Synset>
  <Synset id="t-3" ili="i3" partOfSpeech="n"><SynsetRelation relType="hypernym" target="t-4"/></Synset>
  <Synset id="t-4" ili="i4" partOfSpeech="n"/>
</Lexicon>
<Lexicon id="u" label="u" {A}>
  <Synset id="u-1" ili="i1" partOfSpeech="n"/>
  <Synset id="u-4" ili="i4" partOfSpeech="n"/>
</Lexicon></LexicalResource>'''


def key(ss):
    return (ss.id, ss._ili)


def reachable(start, *types):
    """least set containing get_related(start) and closed under get_related (entities told apart by id AND ili)"""
    seen, order, todo = set(), [], list(start.get_related(*types))
    while todo:
        x = todo.pop(0)
        if key(x) in seen:
            continue
        seen.add(key(x))
        order.append(key(x))
        todo.extend(x.get_related(*types))
    return order


bad = []
try:
    p = os.path.join(tmp, 'd.xml')
    with open(p, 'w', encoding='utf-8') as fh:
        fh.write(DOC)
    wn.add(p, progress_handler=None)
    for label, start in (('default mode, wn.synset("u-1")', wn.synset('u-1')),
                         ('Wordnet("u:1", expand="t:1")', wn.Wordnet('u:1', expand='t:1').synset('u-1'))):
        want = reachable(start, 'hypernym')
        got = [key(x) for x in start.closure('hypernym')]
        paths = [[key(x) for x in path] for path in start.relation_paths('hypernym')]
        if sorted(got, key=str) != sorted(want, key=str):
            bad.append(f'{label}: closure("hypernym") = {got}\n    reachable over hypernym (get_related fixpoint) = {want}\n'
                       f'    relation_paths("hypernym") = {paths}')
finally:
    shutil.rmtree(tmp, ignore_errors=True)
if bad:
    print('VIOLATION (C11 "closure() yields exactly the entities reachable over the given relation types"):')
    print('\n'.join(bad))
    sys.exit(1)
print('ok')
