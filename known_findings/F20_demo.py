"""Morphy: an irregular form shared by two words is keyed by Form objects in the exception map; Forms that differ in
script are unequal (Form.__eq__) but hash alike, so the map holds two keys and a look-up with the plain query string
finds only the first: the lemma of the other word is missing from the result."""
import sys, tempfile, shutil
from pathlib import Path
import wn
from wn.morphy import Morphy
XML = '''<?xml version="1.0" encoding="UTF-8"?>
<!DOCTYPE LexicalResource SYSTEM "http://globalwordnet.github.io/schemas/WN-LMF-1.0.dtd">
<LexicalResource xmlns:dc="http://purl.org/dc/elements/1.1/">
<Lexicon id="k" label="k" language="en" email="a@b.c" license="l" version="1">
<LexicalEntry id="k-well-a"><Lemma partOfSpeech="a" writtenForm="well"/><Form writtenForm="better" script="Latn"/>
 <Sense id="k-well-a-1" synset="k-1-a"/></LexicalEntry>
<LexicalEntry id="k-good-a"><Lemma partOfSpeech="a" writtenForm="good"/><Form writtenForm="better"/>
 <Sense id="k-good-a-1" synset="k-2-a"/></LexicalEntry>
<Synset id="k-1-a" ili="" partOfSpeech="a"/><Synset id="k-2-a" ili="" partOfSpeech="a"/>
</Lexicon></LexicalResource>'''
d = tempfile.mkdtemp()
try:
    wn.config.data_directory = d
    p = Path(d) / 'k.xml'; p.write_text(XML)
    wn.add(p, progress_handler=None)
    w = wn.Wordnet('k:1')
    got = Morphy(w)('better', 'a')
    want = {'a': {'well', 'good'}}
    print('got', got, 'want', want)
    ok = got == want
    print('PASS' if ok else 'FAIL')
    sys.exit(0 if ok else 1)
finally:
    shutil.rmtree(d, ignore_errors=True)
