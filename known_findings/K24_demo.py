"""C02 (and C03): text kept by xml:space="preserve" (the one feature LMF 1.3 adds) does not survive dump()/export().

load() keeps the character data of an element with xml:space="preserve" un-normalised; dump() never writes the
xml:space attribute, so (a) load(dump(R)) != R and (b) dump(load(F)) is not a byte fixed point; (c) after
add -> export(1.3) -> add into an empty database Synset.definition() differs.
"""
import os, shutil, sys, tempfile
import wn
work = tempfile.mkdtemp(prefix='auditD1')
wn.config.data_directory = os.path.join(work, 'db1')
os.makedirs(wn.config.data_directory, exist_ok=True)
from wn import lmf

DOC = '''<?xml version="1.0" encoding="UTF-8"?>
<!DOCTYPE LexicalResource SYSTEM "http://globalwordnet.github.io/schemas/WN-LMF-1.3.dtd">
<LexicalResource xmlns:dc="https://globalwordnet.github.io/schemas/dc/">
  <Lexicon id="l" label="L" language="en" email="e" license="x" version="1">
    <LexicalEntry id="l-e1"><Lemma writtenForm="dog" partOfSpeech="n"/><Sense id="l-s1" synset="l-ss1"/></LexicalEntry>
    <Synset id="l-ss1" ili="" partOfSpeech="n">
      <Definition xml:space="preserve">line one
  line two</Definition>
    </Synset>
  </Lexicon>
</LexicalResource>
'''
problems = []
try:
    f0, f1, f2, fx = (os.path.join(work, n) for n in ('f0.xml', 'f1.xml', 'f2.xml', 'exp.xml'))
    open(f0, 'w', encoding='utf-8').write(DOC)
    r0 = lmf.load(f0, progress_handler=None)                  # a resource "load() itself can return"
    lmf.dump(r0, f1)
    r1 = lmf.load(f1, progress_handler=None)
    d0 = r0['lexicons'][0]['synsets'][0]['definitions'][0]
    d1 = r1['lexicons'][0]['synsets'][0]['definitions'][0]
    if d0 != d1:
        problems.append(f'C02 load(dump(R)) != R: definition {d0!r} -> {d1!r}')
    lmf.dump(r1, f2)
    if open(f1, 'rb').read() != open(f2, 'rb').read():
        problems.append('C02 dump(load(F)) is not a fixed point: dumping, loading and dumping again changes the bytes')
    # C03: add -> export as 1.3 -> load / re-add
    wn.add(f0, progress_handler=None)
    before = wn.synset('l-ss1').definition()
    wn.export(wn.lexicons(), fx, version='1.3')
    dx = lmf.load(fx, progress_handler=None)['lexicons'][0]['synsets'][0]['definitions'][0]['text']
    if dx != before:
        problems.append(f'C03 load(export(db)) definition {dx!r} != added {before!r}')
    wn.config.data_directory = os.path.join(work, 'db2')
    os.makedirs(wn.config.data_directory, exist_ok=True)
    wn.add(fx, progress_handler=None)
    after = wn.synset('l-ss1').definition()
    if after != before:
        problems.append(f'C03 re-added database differs: Synset.definition() {before!r} -> {after!r}')
finally:
    shutil.rmtree(work, ignore_errors=True)
for p in problems:
    print(p)
sys.exit(1 if problems else 0)
