"""An explicit lexicalized="true" / phonemic="true" is loaded as True but never written by dump (the writer only writes
the value 'false'), so load(dump(R)) lacks the key: the resource is not equal to R (the DTD default makes the two
documents equivalent, the loaded dictionaries differ)."""
import sys, tempfile, os
from wn import lmf
XML = '''<?xml version="1.0" encoding="UTF-8"?>
<!DOCTYPE LexicalResource SYSTEM "http://globalwordnet.github.io/schemas/WN-LMF-1.1.dtd">
<LexicalResource xmlns:dc="https://globalwordnet.github.io/schemas/dc/">
<Lexicon id="k" label="k" language="en" email="a@b.c" license="l" version="1">
<LexicalEntry id="k-a-n"><Lemma partOfSpeech="n" writtenForm="a"><Pronunciation phonemic="true">a</Pronunciation></Lemma>
<Sense id="k-a-n-1" synset="k-1-n" lexicalized="true"/></LexicalEntry>
<Synset id="k-1-n" ili="" partOfSpeech="n" lexicalized="true"/>
</Lexicon></LexicalResource>'''
d = tempfile.mkdtemp()
p, q = os.path.join(d, 'a.xml'), os.path.join(d, 'b.xml')
open(p, 'w').write(XML)
r1 = lmf.load(p, progress_handler=None)
lmf.dump(r1, q)
r2 = lmf.load(q, progress_handler=None)
e1, e2 = r1['lexicons'][0]['entries'][0], r2['lexicons'][0]['entries'][0]
diffs = []
if e1['lemma']['pronunciations'][0] != e2['lemma']['pronunciations'][0]:
    diffs.append(('pronunciation', e1['lemma']['pronunciations'][0], e2['lemma']['pronunciations'][0]))
if e1['senses'][0] != e2['senses'][0]:
    diffs.append(('sense', e1['senses'][0], e2['senses'][0]))
if r1['lexicons'][0]['synsets'][0] != r2['lexicons'][0]['synsets'][0]:
    diffs.append(('synset', r1['lexicons'][0]['synsets'][0], r2['lexicons'][0]['synsets'][0]))
for x in diffs: print(x)
print('PASS' if not diffs else 'FAIL'); sys.exit(1 if diffs else 0)
