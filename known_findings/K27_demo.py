"""C01 / extension pattern "new senses on external entries": the senses of a word are not reported in entry order.

Base lexicon b: entry b-w1 with senses b-w1-s0, b-w1-s1.  Extension e lists, inside <ExternalLexicalEntry id="b-w1">,
the two external senses and then two NEW senses e-w1-s2, e-w1-s3.  Entry order in the extension document (and any
sensible reading of "base senses, then the extension's"): s0, s1, s2, s3.
wn stores entry_rank = index among the LOCAL senses of the entry (0, 1 for the new ones), which collides with the
ranks 0, 1 of the base senses; Word.senses() (ORDER BY entry_rank) interleaves them.
"""
import os, shutil, sys, tempfile
import wn
d = tempfile.mkdtemp()
wn.config.data_directory = d

HEAD = ('<?xml version="1.0" encoding="UTF-8"?>\n'
        '<!DOCTYPE LexicalResource SYSTEM "http://globalwordnet.github.io/schemas/WN-LMF-1.1.dtd">\n'
        '<LexicalResource xmlns:dc="https://globalwordnet.github.io/schemas/dc/">\n')
ATTR = 'label="x" language="en" email="a@b.c" license="l" version="1"'
BASE = HEAD + f'''<Lexicon id="b" {ATTR}>
<LexicalEntry id="b-w1"><Lemma writtenForm="w1" partOfSpeech="n"/>
  <Sense id="b-w1-s0" synset="b-ss1"/><Sense id="b-w1-s1" synset="b-ss2"/></LexicalEntry>
<Synset id="b-ss1" ili="i1" partOfSpeech="n"/><Synset id="b-ss2" ili="i2" partOfSpeech="n"/>
<Synset id="b-ss3" ili="i3" partOfSpeech="n"/><Synset id="b-ss4" ili="i4" partOfSpeech="n"/>
</Lexicon></LexicalResource>
'''
EXT = HEAD + f'''<LexiconExtension id="e" {ATTR}><Extends id="b" version="1"/>
<ExternalLexicalEntry id="b-w1">
  <ExternalSense id="b-w1-s0"/><ExternalSense id="b-w1-s1"/>
  <Sense id="e-w1-s2" synset="b-ss3"/><Sense id="e-w1-s3" synset="b-ss4"/>
</ExternalLexicalEntry>
<ExternalSynset id="b-ss3"/><ExternalSynset id="b-ss4"/>
</LexiconExtension></LexicalResource>
'''
rc = 0
try:
    for name, text in (('b.xml', BASE), ('e.xml', EXT)):
        p = os.path.join(d, name)
        open(p, 'w', encoding='utf-8').write(text)
        wn.add(p, progress_handler=None)
    want = ['b-w1-s0', 'b-w1-s1', 'e-w1-s2', 'e-w1-s3']          # order of the <*Sense> children of the entry
    for label, w in (('Wordnet("b e")', wn.Wordnet('b e')), ('default wn.word()', None)):
        word = w.word('b-w1') if w else wn.word('b-w1')
        got = [s.id for s in word.senses()]
        if got != want:
            rc = 1
            print(f'{label}: Word("b-w1").senses() = {got}\n   entry order in the documents        = {want}')
    import wn._db
    rows = wn._db.connect().execute('SELECT id, entry_rank FROM senses ORDER BY rowid').fetchall()
    print('stored (sense id, entry_rank):', rows)
finally:
    import wn._db
    for c in wn._db.pool.values():
        c.close()
    shutil.rmtree(d, ignore_errors=True)
print('VIOLATED' if rc else 'ok')
sys.exit(rc)
