"""C01: characters of text content are altered: every Unicode "whitespace" character that is NOT XML white space
(U+00A0 NO-BREAK SPACE, U+3000 IDEOGRAPHIC SPACE, U+2003 EM SPACE, U+2028, U+0085 ...) inside <Definition>,
<Example>, <ILIDefinition>, <Tag>, <Pronunciation> is replaced by U+0020 (runs collapsed, leading/trailing ones
dropped) by wn.lmf's end-element handler:  elem['text'] = ' '.join(elem['text'].split())  - str.split() splits on
str.isspace(), a much larger set than the four XML white-space characters (#x20 #x9 #xD #xA) the comment
"normalize whitespace" is about.  Attribute values with the same characters are reported unchanged."""
import os, shutil, sys, tempfile
import wn
d = tempfile.mkdtemp()
wn.config.data_directory = d

DEF = 'fine print, 日本　語, em space'          # no XML white space at all in these strings
EX = ' lead and trail　'.replace(' ', '_')
TAG = 'a b'
PRON = 'pro nun'
DOC = ('<?xml version="1.0" encoding="UTF-8"?>\n'
       '<!DOCTYPE LexicalResource SYSTEM "http://globalwordnet.github.io/schemas/WN-LMF-1.1.dtd">\n'
       '<LexicalResource xmlns:dc="https://globalwordnet.github.io/schemas/dc/">\n'
       f'<Lexicon id="b" label="{DEF}" language="en" email="a@b.c" license="l" version="1">\n'
       f'<LexicalEntry id="b-w1"><Lemma writtenForm="w1" partOfSpeech="n"><Pronunciation>{PRON}</Pronunciation>'
       f'<Tag category="c">{TAG}</Tag></Lemma><Sense id="b-w1-s0" synset="b-ss1"><Example>{EX}</Example></Sense></LexicalEntry>\n'
       f'<Synset id="b-ss1" ili="in" partOfSpeech="n"><Definition>{DEF}</Definition><ILIDefinition>{DEF}</ILIDefinition>'
       f'<Example>{EX}</Example></Synset>\n</Lexicon></LexicalResource>\n')
rc = 0
try:
    p = os.path.join(d, 'b.xml')
    open(p, 'w', encoding='utf-8').write(DOC)
    wn.add(p, progress_handler=None)
    w = wn.Wordnet('b')
    ss, s, lemma = w.synsets()[0], w.senses()[0], w.words()[0].lemma()
    checks = [('Lexicon.label (attribute, control)', w.lexicons()[0].label, DEF),
              ('Synset.definition()', ss.definition(), DEF),
              ('Synset.ili.definition()', ss.ili.definition(), DEF),
              ('Synset.examples()[0]', ss.examples()[0], EX),
              ('Sense.examples()[0]', s.examples()[0], EX),
              ('Form.tags()[0].tag', lemma.tags()[0].tag, TAG),
              ('Form.pronunciations()[0].value', lemma.pronunciations()[0].value, PRON)]
    for what, got, want in checks:
        if got != want:
            rc = 1
            print(f'{what}:\n    document {want!a}\n    reported {got!a}')
finally:
    import wn._db
    for c in wn._db.pool.values():
        c.close()
    shutil.rmtree(d, ignore_errors=True)
print('VIOLATED' if rc else 'ok')
sys.exit(rc)
