"""C04 / C09: a SENSE of an UNSELECTED extension makes a base synset findable by the extension's own word.

S = {base}.  The extension `ext` (not selected) declares its own entry 'gizmo' whose sense points to the base
synset base-ss1.  Wordnet('base:1').synsets('gizmo') must be [] (no word of S has the form 'gizmo', and the
result of a Wordnet restricted to S must not change when an unselected extension of a member of S is added).
Variant in the same data: the extension also puts a sense of the BASE word 'widget' into the base synset base-ss2;
Wordnet('base:1').synsets('widget') then also returns base-ss2 although no sense of S links 'widget' to it.
On the real library synsets('gizmo') returns [Synset('base-ss1')]: find_synsets joins forms -> senses -> synsets and only
guards the lexicon of the synset.
Data satisfies the stated restriction of known finding K1 (no form/tag/pronunciation row of the extension is
attached to an entry of S).
"""
import os, shutil, sys, tempfile
import wn
tmp = tempfile.mkdtemp()
wn.config.data_directory = tmp

HEAD = '<?xml version="1.0" encoding="UTF-8"?>\n<!DOCTYPE LexicalResource SYSTEM "http://globalwordnet.github.io/schemas/WN-LMF-1.1.dtd">\n<LexicalResource xmlns:dc="https://globalwordnet.github.io/schemas/dc/">\n'
ATTRS = 'language="en" email="a@b.c" license="l" version="1"'
BASE = HEAD + f'''<Lexicon id="base" label="base" {ATTRS}>
  <LexicalEntry id="base-widget-n"><Lemma partOfSpeech="n" writtenForm="widget"/>
    <Sense id="base-widget-n-1" synset="base-ss1"/></LexicalEntry>
  <Synset id="base-ss1" ili="i1" partOfSpeech="n"/>
  <Synset id="base-ss2" ili="i2" partOfSpeech="n"/>
</Lexicon></LexicalResource>'''
EXT = HEAD + f'''<LexiconExtension id="ext" label="ext" {ATTRS}>
  <Extends id="base" version="1"/>
  <LexicalEntry id="ext-gizmo-n"><Lemma partOfSpeech="n" writtenForm="gizmo"/>
    <Sense id="ext-gizmo-n-1" synset="base-ss1"/></LexicalEntry>
  <ExternalLexicalEntry id="base-widget-n"><Sense id="ext-widget-n-2" synset="base-ss2"/></ExternalLexicalEntry>
  <ExternalSynset id="base-ss1"/><ExternalSynset id="base-ss2"/>
</LexiconExtension></LexicalResource>'''

def put(name, text):
    p = os.path.join(tmp, name)
    with open(p, 'w', encoding='utf-8') as fh:
        fh.write(text)
    return p

bad = []
try:
    wn.add(put('base.xml', BASE), progress_handler=None)
    def observe():
        out = {}
        for saf in (True, False):
            for norm in ('default', None):
                kw = {} if norm == 'default' else {'normalizer': None}
                w = wn.Wordnet('base:1', search_all_forms=saf, **kw)
                out[(saf, norm)] = ([s.id for s in w.synsets('gizmo')], [x.id for x in w.words('gizmo')],
                                    [x.id for x in w.senses('gizmo')], 'synsets("widget"):', [s.id for s in w.synsets('widget')])
        return out
    before = observe()
    wn.add(put('ext.xml', EXT), progress_handler=None)
    after = observe()
    for k in before:
        if before[k] != after[k]:
            bad.append(f'Wordnet("base:1", search_all_forms={k[0]}, normalizer={k[1]}): (synsets, words, senses)("gizmo") '
                       f'= {before[k]} before adding the unselected extension, {after[k]} after')
    w = wn.Wordnet('base:1')
    for ss in w.synsets('gizmo'):
        forms = [f for word in ss.words() for f in word.forms()]
        if 'gizmo' not in forms:
            bad.append(f'{ss!r} is returned for "gizmo" but none of its in-scope words has that form (forms: {forms})')
finally:
    shutil.rmtree(tmp, ignore_errors=True)
if bad:
    print('VIOLATION (C04 non-interference / C09 "in-scope entities whose word has a stored form"):')
    print('\n'.join(bad))
    sys.exit(1)
print('ok')
