"""F6 (C14/C15): information_content / res / jcn / lin raised KeyError 's' for satellite-adjective synsets."""
import os, tempfile, wn, wn.ic, wn.similarity
wn.config.data_directory = tempfile.mkdtemp()
xml = '''<?xml version="1.0" encoding="UTF-8"?>
<!DOCTYPE LexicalResource SYSTEM "http://globalwordnet.github.io/schemas/WN-LMF-1.0.dtd">
<LexicalResource xmlns:dc="http://purl.org/dc/elements/1.1/">
  <Lexicon id="sat" label="satellites" language="en" email="a@b" license="l" version="1">
    <LexicalEntry id="sat-dry"><Lemma writtenForm="dry" partOfSpeech="a"/><Sense id="sat-dry-1" synset="sat-a"/></LexicalEntry>
    <LexicalEntry id="sat-arid"><Lemma writtenForm="arid" partOfSpeech="s"/><Sense id="sat-arid-1" synset="sat-s"/></LexicalEntry>
    <Synset id="sat-a" ili="" partOfSpeech="a"/>
    <Synset id="sat-s" ili="" partOfSpeech="s"><SynsetRelation relType="hypernym" target="sat-a"/></Synset>
  </Lexicon>
</LexicalResource>'''
path = os.path.join(wn.config.data_directory, 'sat.xml')
open(path, 'w').write(xml)
wn.add(path, progress_handler=None)
w = wn.Wordnet('sat:1')
freq = wn.ic.compute(['dry', 'arid'], w)
s, a = w.synset('sat-s'), w.synset('sat-a')
print('IC(s) =', wn.ic.information_content(s, freq), ' res(s, a) =', wn.similarity.res(s, a, freq),
      ' lin(s, a) =', wn.similarity.lin(s, a, freq), ' jcn(a, s) =', wn.similarity.jcn(a, s, freq))
print('PASS')
