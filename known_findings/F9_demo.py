"""F9 (C08): lexicon specifiers - a bare id selected the FIRST added version (docs: the most recently added); '*' was
tested on the whole specifier list, so a bare id lost its 'exactly one' meaning next to a starred specifier; a
lexicon matched by two specifiers was selected twice."""
import os, tempfile, wn
wn.config.data_directory = tempfile.mkdtemp()
TEMPLATE = '''<?xml version="1.0" encoding="UTF-8"?>
<!DOCTYPE LexicalResource SYSTEM "http://globalwordnet.github.io/schemas/WN-LMF-1.0.dtd">
<LexicalResource xmlns:dc="http://purl.org/dc/elements/1.1/">
  <Lexicon id="{id}" label="{id} {ver}" language="en" email="a@b" license="l" version="{ver}">
    <LexicalEntry id="{id}-{ver}-w"><Lemma writtenForm="w" partOfSpeech="n"/></LexicalEntry>
  </Lexicon>
</LexicalResource>'''
for lid, ver in (('m', '2020'), ('m', '2019'), ('mm', '1')):     # m:2020 is added BEFORE m:2019
    path = os.path.join(wn.config.data_directory, f'{lid}-{ver}.xml')
    open(path, 'w').write(TEMPLATE.format(id=lid, ver=ver))
    wn.add(path, progress_handler=None)
spec = lambda **kw: [l.specifier() for l in wn.lexicons(**kw)]
assert spec(lexicon='m') == ['m:2019'], spec(lexicon='m')                    # most recently added
assert sorted(spec(lexicon='m mm:*')) == ['m:2019', 'mm:1'], spec(lexicon='m mm:*')
assert spec(lexicon='m:2020 m:*').count('m:2020') == 1, spec(lexicon='m:2020 m:*')
print('PASS')
