"""F3 (C15): wn.ic.compute added a corpus word's weight to a convergent ancestor once per hypernym PATH."""
import os, tempfile, wn, wn.ic
wn.config.data_directory = tempfile.mkdtemp()
xml = '''<?xml version="1.0" encoding="UTF-8"?>
<!DOCTYPE LexicalResource SYSTEM "http://globalwordnet.github.io/schemas/WN-LMF-1.0.dtd">
<LexicalResource xmlns:dc="http://purl.org/dc/elements/1.1/">
  <Lexicon id="d" label="diamond" language="en" email="a@b" license="l" version="1">
    <LexicalEntry id="d-w0"><Lemma writtenForm="w0" partOfSpeech="n"/><Sense id="d-w0-1" synset="d-0"/></LexicalEntry>
    <Synset id="d-0" ili="" partOfSpeech="n"><SynsetRelation relType="hypernym" target="d-1"/><SynsetRelation relType="hypernym" target="d-2"/></Synset>
    <Synset id="d-1" ili="" partOfSpeech="n"><SynsetRelation relType="hypernym" target="d-3"/></Synset>
    <Synset id="d-2" ili="" partOfSpeech="n"><SynsetRelation relType="hypernym" target="d-3"/></Synset>
    <Synset id="d-3" ili="" partOfSpeech="n"/>
  </Lexicon>
</LexicalResource>'''
path = os.path.join(wn.config.data_directory, 'diamond.xml')
open(path, 'w').write(xml)
wn.add(path, progress_handler=None)
w = wn.Wordnet('d:1')
freq = wn.ic.compute(['w0'], w, smoothing=1.0)
top, total = freq['n']['d-3'], freq['n'][None]
assert top == 2.0 and total == 2.0, f'top weight {top}, total {total}: probability {top / total}'
print('PASS')
