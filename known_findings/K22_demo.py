"""C13/C14 - taxonomy walks that START at a synset inferred through an expand lexicon.

Hypernym graph (the same in both wordnets):   a -> c,  b -> c,  c -> d,  d -> r
  * lexicon t stores the five synsets and the four hypernym relations itself
  * lexicon u stores only a and b (ILIs i1, i2); wn.Wordnet('u:1', expand='t:1') borrows the relations of t through
    the ILIs, so c, d, r are '*INFERRED*' placeholder synsets (all with rowid 0, told apart by their ILI)
H(x) = x.hypernyms() is the same graph in both wordnets, so every taxonomy/similarity result must be the same.
Exit status 1 and a list of differences when the library violates the property, 0 otherwise.
"""
import os
import shutil
import sys
import tempfile

import wn
work = tempfile.mkdtemp(prefix='auditE1_')
wn.config.data_directory = os.path.join(work, 'data')
os.makedirs(wn.config.data_directory, exist_ok=True)
import wn.taxonomy      # noqa: E402
import wn.similarity    # noqa: E402

XML = '''<?xml version="1.0" encoding="UTF-8"?>
<!DOCTYPE LexicalResource SYSTEM "http://globalwordnet.github.io/schemas/WN-LMF-1.0.dtd">
<LexicalResource xmlns:dc="http://purl.org/dc/elements/1.1/">
<Lexicon id="t" label="t" language="en" email="e@x" license="l" version="1">
<LexicalEntry id="t-wa"><Lemma writtenForm="worda" partOfSpeech="n"/><Sense id="t-sa" synset="t-a"/></LexicalEntry>
<LexicalEntry id="t-wb"><Lemma writtenForm="wordb" partOfSpeech="n"/><Sense id="t-sb" synset="t-b"/></LexicalEntry>
<Synset id="t-a" ili="i1" partOfSpeech="n"><SynsetRelation target="t-c" relType="hypernym"/></Synset>
<Synset id="t-b" ili="i2" partOfSpeech="n"><SynsetRelation target="t-c" relType="hypernym"/></Synset>
<Synset id="t-c" ili="i3" partOfSpeech="n"><SynsetRelation target="t-d" relType="hypernym"/><SynsetRelation target="t-a" relType="hyponym"/><SynsetRelation target="t-b" relType="hyponym"/></Synset>
<Synset id="t-d" ili="i4" partOfSpeech="n"><SynsetRelation target="t-r" relType="hypernym"/><SynsetRelation target="t-c" relType="hyponym"/></Synset>
<Synset id="t-r" ili="i5" partOfSpeech="n"><SynsetRelation target="t-d" relType="hyponym"/></Synset>
</Lexicon>
<Lexicon id="u" label="u" language="en" email="e@x" license="l" version="1">
<LexicalEntry id="u-wa"><Lemma writtenForm="ua" partOfSpeech="n"/><Sense id="u-sa" synset="u-a"/></LexicalEntry>
<LexicalEntry id="u-wb"><Lemma writtenForm="ub" partOfSpeech="n"/><Sense id="u-sb" synset="u-b"/></LexicalEntry>
<Synset id="u-a" ili="i1" partOfSpeech="n"/>
<Synset id="u-b" ili="i2" partOfSpeech="n"/>
</Lexicon>
</LexicalResource>
'''

problems = []
try:
    src = os.path.join(work, 'src.xml')
    with open(src, 'w') as fh:
        fh.write(XML)
    wn.add(src, progress_handler=None)
    wt = wn.Wordnet('t:1')
    wx = wn.Wordnet('u:1', expand='t:1')
    ta, tb, tc, td = (wt.synset(f't-{n}') for n in 'abcd')
    ua, ub = wx.synset('u-a'), wx.synset('u-b')

    def name(s):            # concept name through the ILI (same in both wordnets)
        return {'i1': 'a', 'i2': 'b', 'i3': 'c', 'i4': 'd', 'i5': 'r'}[s._ili]

    # the two wordnets present the same hypernym graph H
    assert [[name(s) for s in p] for p in ua.hypernym_paths()] == [[name(s) for s in p] for p in ta.hypernym_paths()] \
        == [['c', 'd', 'r']]
    uc = ua.hypernyms()[0]       # the inferred synset for concept c
    ud = uc.hypernyms()[0]       # ... and for concept d : H(c) = [d] also in the expanded wordnet
    assert (name(uc), name(ud)) == ('c', 'd') and uc.id == ud.id == '*INFERRED*'

    # C13: hypernym_paths(x) = all maximal simple hypernym chains from x ; max_depth = the longest
    got = [[name(s) for s in p] for p in uc.hypernym_paths()]
    want = [[name(s) for s in p] for p in tc.hypernym_paths()]          # [['d', 'r']]
    if got != want:
        problems.append(f'C13 hypernym_paths(c): {got} in the expanded wordnet, {want} on the stored graph, although '
                        f'c.hypernyms() = {[name(s) for s in uc.hypernyms()]}')
    if uc.max_depth() != tc.max_depth() or uc.min_depth() != tc.min_depth():
        problems.append(f'C13 min/max_depth(c): {uc.min_depth()}/{uc.max_depth()} instead of {tc.min_depth()}/{tc.max_depth()}')
    # C13: shortest_path(a, b) is empty iff a is b
    sp = uc.shortest_path(ud)
    if sp == [] and uc._ili != ud._ili:
        problems.append(f'C13 shortest_path(c, d) == [] although c and d are different synsets '
                        f'(stored graph: {[name(s) for s in tc.shortest_path(td)]})')
    # C14: path is 1 exactly for identical synsets
    if wn.similarity.path(uc, ud) == 1.0:
        problems.append(f'C14 path(c, d) == 1.0 for two different synsets (stored graph: {wn.similarity.path(tc, td)})')
    # C14: wup = 2k/(i+j+2k), k = depth of the lowest common hypernym + 1 -- for two STORED synsets of u
    w_t, w_x = wn.similarity.wup(ta, tb), wn.similarity.wup(ua, ub)
    if abs(w_t - w_x) > 1e-12:
        lcs = ua.lowest_common_hypernyms(ub)
        problems.append(f'C14 wup(a, b) = {w_x} in the expanded wordnet, {w_t} on the stored graph (formula: i=j=1, '
                        f'lowest common hypernym c of depth 2 -> k=3 -> 6/8); lcs={[name(s) for s in lcs]}, '
                        f'lcs.max_depth()={lcs[0].max_depth()}')
finally:
    shutil.rmtree(work, ignore_errors=True)

if problems:
    print('property violated:')
    for p in problems:
        print(' -', p)
    sys.exit(1)
print('ok')
