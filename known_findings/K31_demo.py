"""C05 (also C01/C04): a <Tag>/<Pronunciation> that an extension declares on ITS OWN new <Form> inside an
<ExternalLexicalEntry> is attached to the BASE lexicon's form of the same rank (FORM_QUERY: `f.id = ? OR f.rank = ?`
restricted only by the base entry), so it is reported for the wrong form, survives wn.remove(extension) and the
base lexicon's observable content is no longer what a fresh database with only the base gives.

Not K13 as recorded: K13's text is about tags "that an EXTENSION attaches to forms of the base lexicon
(ExternalLemma/ExternalForm)"; here the document attaches the tag to a form the extension itself contributes.
K13's formal restriction (lexidmap empty = the lexicon has no external element at all) hides it.

exit 1 = property violated on the tree under test, 0 otherwise."""
import shutil
import sys
import tempfile

import wn
import wn._db

work = tempfile.mkdtemp(prefix='auditG_1_')
wn.config.data_directory = work


def lex(**kw):
    d = dict(label='L', language='en', email='e', license='l', version='1', meta=None, entries=[], synsets=[])
    d.update(kw)
    return d


BASE = lex(id='b', entries=[
    {'id': 'b-go', 'meta': None, 'lemma': {'writtenForm': 'go', 'partOfSpeech': 'v'},
     'forms': [{'writtenForm': 'went'}, {'writtenForm': 'gone'}],
     'senses': [{'id': 'b-go-1', 'synset': 'b-ss1', 'meta': None}]}],
    synsets=[{'id': 'b-ss1', 'ili': 'i1', 'partOfSpeech': 'v', 'meta': None}])
# the extension adds the form 'goes' (with a tag and a pronunciation) to the base entry
EXT = lex(id='x', extends={'id': 'b', 'version': '1'}, entries=[
    {'id': 'b-go', 'external': True,
     'forms': [{'writtenForm': 'goes', 'tags': [{'text': '3SG', 'category': 'person'}],
                'pronunciations': [{'text': 'gouz'}]}],
     'senses': []}])


def add(lx):
    wn.add_lexical_resource({'lmf_version': '1.1', 'lexicons': [lx]}, progress_handler=None)


def forms(spec):
    word = wn.Wordnet(spec, expand='').word('b-go')
    return {str(f): (sorted((t.tag, t.category) for t in f.tags()), sorted(p.value for p in f.pronunciations()))
            for f in word.forms()}


problems = []
try:
    add(BASE)
    fresh = forms('b:1')                       # what a database holding only b:1 shows
    add(EXT)
    both = forms('b:1 x:1')
    declared = {'go': ([], []), 'went': ([], []), 'gone': ([], []), 'goes': ([('3SG', 'person')], ['gouz'])}
    if both != declared:
        problems.append(f'with the extension installed (C01/C04): forms of b-go = {both}\n'
                        f'    declared by the two documents:                  {declared}')
    wn.remove('x:1', progress_handler=None)
    if [l.specifier() for l in wn.lexicons()] != ['b:1']:
        problems.append(f'installed after remove: {wn.lexicons()}')
    after = forms('b:1')
    if after != fresh:
        problems.append('after add(b) add(x) remove(x) the content of b:1 differs from a database holding only b:1 '
                        f'(C05):\n    history: {after}\n    fresh:   {fresh}')
    # scenario B: two sibling extensions each add one new form (with a tag) to the same base entry that has no other
    # form: the second extension's tag lands on the FIRST extension's form (same rank 1 under the base entry) and is
    # destroyed when the first extension is removed - "leaves every other lexicon's content unchanged"
    wn.remove('*', progress_handler=None)
    base2 = lex(id='b', entries=[{'id': 'b-go', 'meta': None, 'lemma': {'writtenForm': 'go', 'partOfSpeech': 'v'},
                                  'senses': []}])

    def sib(i, form, tag):
        return lex(id=i, extends={'id': 'b', 'version': '1'}, entries=[
            {'id': 'b-go', 'external': True, 'forms': [{'writtenForm': form, 'tags': [{'text': tag, 'category': 'c'}]}],
             'senses': []}])
    add(base2)
    add(sib('y', 'goeth', 'Y-TAG'))
    fresh_y = forms('b:1 y:1')                  # database holding b:1 and y:1 only
    wn.remove('y:1', progress_handler=None)
    add(sib('x', 'goes', 'X-TAG'))
    add(sib('y', 'goeth', 'Y-TAG'))
    wn.remove('x:1', progress_handler=None)
    after_y = forms('b:1 y:1')
    if after_y != fresh_y:
        problems.append('after add(b) add(x) add(y) remove(x) the content of y:1 (sibling extension) differs from a '
                        f'database holding b:1 and y:1 (C05):\n    history: {after_y}\n    fresh:   {fresh_y}')
finally:
    for c in list(wn._db.pool.values()):
        c.close()
    wn._db.pool.clear()
    shutil.rmtree(work, ignore_errors=True)

if problems:
    print('VIOLATION')
    for p in problems:
        print(' -', p)
    sys.exit(1)
print('ok: tags/pronunciations of an extension form stay on that form and disappear with the extension')
sys.exit(0)
