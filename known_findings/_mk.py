"""helper for the demos: build a one-lexicon wordnet from {synset: [hypernyms]} (+ optional pos map) in a temp dir."""
import os
import tempfile


def make(edges, pos=None, prefix='tmp_', lexid='t'):
    import wn
    work = tempfile.mkdtemp(prefix=prefix, dir=os.path.dirname(os.path.abspath(__file__)))
    wn.config.data_directory = os.path.join(work, 'data')
    os.makedirs(wn.config.data_directory, exist_ok=True)
    from wn import lmf
    pos = pos or {}
    synsets, entries = [], []
    for n, hyps in edges.items():
        p = pos.get(n, 'n')
        synsets.append({'id': f'{lexid}-{n}', 'ili': '', 'partOfSpeech': p, 'meta': None, 'definitions': [],
                        'examples': [],
                        'relations': [{'target': f'{lexid}-{h}', 'relType': 'hypernym', 'meta': None} for h in hyps] +
                                     [{'target': f'{lexid}-{c}', 'relType': 'hyponym', 'meta': None}
                                      for c, hs in edges.items() if n in hs]})
        entries.append({'id': f'{lexid}-w{n}', 'meta': None, 'lemma': {'writtenForm': f'word{n}', 'partOfSpeech': p},
                        'forms': [], 'senses': [{'id': f'{lexid}-s{n}', 'synset': f'{lexid}-{n}', 'meta': None,
                                                 'relations': []}]})
    lex = {'id': lexid, 'label': lexid, 'language': 'en', 'email': 'e', 'license': 'l', 'version': '1', 'meta': None,
           'entries': entries, 'synsets': synsets}
    src = os.path.join(work, 'src.xml')
    lmf.dump({'lmf_version': '1.0', 'lexicons': [lex]}, src)
    wn.add(src, progress_handler=None)
    return work
