"""C01 (also C20 "every file produced by dump() is accepted", C07 in-memory route) - a structurally valid lexicon in
which a <Form> repeats the written form AND script of the <Lemma> (English "put": past tense "put"), with the optional
`script` attribute present, cannot be added at all: schema.sql declares UNIQUE (entry_rowid, form, script) on `forms`,
so wn.add raises sqlite3.IntegrityError and nothing of the document can be queried.  Without `script` the same
document is added and reported correctly (NULLs are distinct for UNIQUE), so the outcome depends on "which optional
attributes are present" - exactly what C01 quantifies over.

exit 1 + what differs when the property is violated, exit 0 otherwise.
"""
import os
import shutil
import sys
import tempfile

import wn
from wn import lmf


def resource(script):
    lemma = {'writtenForm': 'put', 'partOfSpeech': 'v'}
    form = {'writtenForm': 'put', 'tags': [{'text': 'past', 'category': 'tense'}]}
    if script:
        lemma['script'] = script
        form['script'] = script
    return {'lmf_version': '1.0', 'lexicons': [{
        'id': 'b', 'label': 'B', 'language': 'en', 'email': 'e', 'license': 'l', 'version': '1', 'meta': None,
        'entries': [{'id': 'b-e1', 'meta': None, 'lemma': lemma, 'forms': [form],
                     'senses': [{'id': 'b-s1', 'synset': 'b-ss1', 'meta': None}]}],
        'synsets': [{'id': 'b-ss1', 'ili': '', 'partOfSpeech': 'v', 'meta': None}]}]}


def run(script):
    """-> (problem or None)"""
    d = tempfile.mkdtemp(prefix='auditF2')
    wn.config.data_directory = d
    try:
        path = os.path.join(d, 'put.xml')
        lmf.dump(resource(script), path)                 # a file produced by dump()
        loaded = lmf.load(path, progress_handler=None)   # load() accepts it
        assert loaded == resource(script), 'harness: dump/load must round-trip this resource'
        try:
            wn.add(path, progress_handler=None)
        except Exception as exc:   # noqa: BLE001
            return f'wn.add of the valid, dump()-produced file raised {type(exc).__name__}: {exc}'
        got = [(str(f), f.script, [(t.tag, t.category) for t in f.tags()]) for f in wn.words()[0].forms()]
        want = [('put', script, []), ('put', script, [('past', 'tense')])]
        if got != want:
            return f'forms reported {got}, document says {want}'
        return None
    finally:
        shutil.rmtree(d, ignore_errors=True)


def main():
    problems = []
    for script in (None, 'Latn'):
        p = run(script)
        print(f'script={script!r}:', p or 'added and reported exactly')
        if p:
            problems.append(p)
    if problems:
        print('C01 violated: the query API cannot report the content of this valid document')
        return 1
    return 0


if __name__ == '__main__':
    sys.exit(main())
