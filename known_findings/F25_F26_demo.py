"""C18: two checks are not exact.
 W203 "Redundant lexical entry with the same lemma and synset" is reported for a lexicon with ONE lexical entry
      (two senses of that entry in the same synset - that is W202, there is no second entry): spurious item.
 E101 "ID is not unique within the lexicon" misses identifiers of entry-level <SyntacticBehaviour id=..> elements
      (loadable in LMF 1.1+): a duplicated frame id and a frame id equal to a synset id are not reported, while the
      same duplicate at lexicon level is.
"""
import os, shutil, sys, tempfile
import wn
work = tempfile.mkdtemp(prefix='auditD4')
os.makedirs(os.path.join(work, 'db'))
wn.config.data_directory = os.path.join(work, 'db')
from wn import lmf
from wn.validate import validate

DOC = '''<?xml version="1.0" encoding="UTF-8"?>
<!DOCTYPE LexicalResource SYSTEM "http://globalwordnet.github.io/schemas/WN-LMF-1.1.dtd">
<LexicalResource xmlns:dc="https://globalwordnet.github.io/schemas/dc/">
  <Lexicon id="l" label="L" language="en" email="e" license="x" version="1">
%s
  </Lexicon>
</LexicalResource>
'''
ONE_ENTRY = '''<LexicalEntry id="l-e1"><Lemma writtenForm="dog" partOfSpeech="n"/>
  <Sense id="l-s1" synset="l-ss1"/><Sense id="l-s2" synset="l-ss1"/></LexicalEntry>
<Synset id="l-ss1" ili="" partOfSpeech="n"/>'''
ENTRY_FRAMES = '''<LexicalEntry id="l-e1"><Lemma writtenForm="bark" partOfSpeech="v"/>
  <Sense id="l-s1" synset="l-ss1"/>
  <SyntacticBehaviour id="l-dup" subcategorizationFrame="frame a"/>
  <SyntacticBehaviour id="l-dup" subcategorizationFrame="frame b"/>
  <SyntacticBehaviour id="l-ss1" subcategorizationFrame="frame c"/>
</LexicalEntry>
<Synset id="l-ss1" ili="" partOfSpeech="v"/>'''


def items(body, code):
    p = os.path.join(work, 'f.xml')
    open(p, 'w', encoding='utf-8').write(DOC % body)
    lex = lmf.load(p, progress_handler=None)['lexicons'][0]
    return validate(lex, select=[code], progress_handler=None)[code]['items']


problems = []
try:
    got = items(ONE_ENTRY, 'W203')
    if got:
        problems.append(f'W203 reports {got} for a lexicon with a single lexical entry (no redundant ENTRY exists)')
    got = items(ENTRY_FRAMES, 'E101')
    for k in ('l-dup', 'l-ss1'):
        if k not in got:
            problems.append(f'E101 does not report the non-unique id {k!r} (used twice in the lexicon); items: {got}')
finally:
    shutil.rmtree(work, ignore_errors=True)
for x in problems:
    print('VIOLATION', x)
sys.exit(1 if problems else 0)
