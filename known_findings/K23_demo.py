"""C17: an initialized Morphy omits the query itself for parts of speech it has no rules for (c, p, x, u, t).

Morphy.__call__ only visits the keys of DETACHMENT_RULES (n, v, a, r, s).  Morphy.__init__ does record the lemmas
and exceptional forms of conjunctions / adpositions / ... (all_lemmas['c'], exceptions['c']) but never consults
them:  Morphy(w)('and', 'c') == {}  and  Morphy(w)('and') == {'n': {'and'}}  when 'and' is both a conjunction and a
noun.  Consequence at the Wordnet level: with lemmatizer=Morphy(w), words('and') loses the conjunction that the same
Wordnet finds without a lemmatizer and with an uninitialized Morphy; an irregular form listed by a conjunction is not
mapped to its lemma at all.
"""
import os, shutil, sys, tempfile
import wn
from wn.morphy import Morphy

tmp = tempfile.mkdtemp(prefix='audit_A_3_')
wn.config.data_directory = tmp

DOC = '''<?xml version="1.0" encoding="UTF-8"?>
<!DOCTYPE LexicalResource SYSTEM "http://globalwordnet.github.io/schemas/WN-LMF-1.1.dtd">
<LexicalResource xmlns:dc="http://globalwordnet.github.io/schemas/dc/">
<Lexicon id="m" label="m" language="en" email="a@b" license="l" version="1">
  <LexicalEntry id="m-and-c"><Lemma writtenForm="and" partOfSpeech="c"/><Form writtenForm="an'"/>
    <Sense id="m-and-c-1" synset="m-1-c"/></LexicalEntry>
  <LexicalEntry id="m-and-n"><Lemma writtenForm="and" partOfSpeech="n"/>
    <Sense id="m-and-n-1" synset="m-2-n"/></LexicalEntry>
  <Synset id="m-1-c" ili="" partOfSpeech="c"/>
  <Synset id="m-2-n" ili="" partOfSpeech="n"/>
</Lexicon></LexicalResource>'''

bad = []
try:
    p = os.path.join(tmp, 'doc.xml')
    with open(p, 'w', encoding='utf-8') as f:
        f.write(DOC)
    wn.add(p, progress_handler=None)
    w = wn.Wordnet('m:1')
    lemmas_by_pos = {}
    for word in w.words():
        lemmas_by_pos.setdefault(word.pos, set()).add(str(word.lemma()))
    m = Morphy(w)
    print('lemmas of the wordnet by pos:', lemmas_by_pos)
    # statement: "... for each part of speech ... always the query itself when it is such a lemma"
    for pos in (None, 'c'):
        got = m('and', pos)
        print(f"Morphy(w)('and', {pos!r}) = {got}")
        for p_, ls in lemmas_by_pos.items():
            if pos in (None, p_) and 'and' in ls and 'and' not in got.get(p_, set()):
                bad.append(f"Morphy(w)('and', {pos!r}) = {got}: 'and' is a lemma of a word of pos {p_!r} "
                           f"but is not returned under {p_!r}")
    # "... every lemma of a word listing the query as an additional form"
    got = m("an'", 'c')
    print(f"Morphy(w)(\"an'\", 'c') = {got}")
    if 'and' not in got.get('c', set()):
        bad.append(f"Morphy(w)(\"an'\", 'c') = {got}: the conjunction 'and' lists \"an'\" as an additional form")
    # Wordnet level
    plain = [x.id for x in w.words('and')]
    w_un = wn.Wordnet('m:1', lemmatizer=Morphy())
    w_in = wn.Wordnet('m:1')
    w_in.lemmatizer = Morphy(w_in)
    un = [x.id for x in w_un.words('and')]
    ini = [x.id for x in w_in.words('and')]
    print("words('and'): no lemmatizer", plain, '| uninitialized Morphy', un, '| initialized Morphy', ini)
    if sorted(ini) != sorted(plain):
        bad.append(f"Wordnet.words('and') with an initialized Morphy = {ini}, without lemmatizer = {plain}, with an "
                   f"uninitialized Morphy = {un}: the exactly stored conjunction is lost")
finally:
    import wn._db
    for c in list(wn._db.pool.values()):
        c.close()
    wn._db.pool.clear()
    shutil.rmtree(tmp, ignore_errors=True)

if bad:
    print('PROPERTY VIOLATED (C17):')
    for b in bad:
        print('  -', b)
    sys.exit(1)
print('ok')
