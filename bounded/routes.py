"""Bounded stand-in for C07: the same lexicons supplied through every route, on the real code; logical table dumps
are compared. Never counted as proved."""
from __future__ import annotations

import copy
import gzip
import hashlib
import lzma
import os
import shutil
import sqlite3
import tarfile
import tempfile
from concurrent.futures import ProcessPoolExecutor

from bounded import lmfgen

VERSIONS = ['1.0', '1.1', '1.3']


def logical_dump(dbpath):
    """Every table without the columns that depend on the moment of insertion: all tables have rowids assigned in
    insertion order, identical across routes when the same lexicons are added in the same order - so a plain dump
    is comparable; the lexicons.modified flag and metadata are kept."""
    con = sqlite3.connect(dbpath)
    out = {}
    for (name,) in con.execute("SELECT name FROM sqlite_master WHERE type='table' ORDER BY name").fetchall():
        out[name] = con.execute(f'SELECT * FROM "{name}"').fetchall()
    con.close()
    return out


def sha(path):
    h = hashlib.sha256()
    if os.path.isdir(path):
        for root, dirs, files in sorted(os.walk(path)):
            dirs.sort()
            for f in sorted(files):
                h.update(os.path.relpath(os.path.join(root, f), path).encode())
                h.update(open(os.path.join(root, f), 'rb').read())
    else:
        h.update(open(path, 'rb').read())
    return h.hexdigest()


def make_routes(work, xml_path, second_xml=None):
    """{route name: path}. A package directory carries extra files; a collection holds two independent packages when
    second_xml is given."""
    routes = {'xml': xml_path}
    gz = os.path.join(work, 'r.xml.gz')
    with open(xml_path, 'rb') as src, gzip.open(gz, 'wb') as dst:
        shutil.copyfileobj(src, dst)
    routes['gz'] = gz
    xz = os.path.join(work, 'r.xml.xz')
    with open(xml_path, 'rb') as src, lzma.open(xz, 'wb') as dst:
        shutil.copyfileobj(src, dst)
    routes['xz'] = xz
    # compressed files whose names do not say so (the download cache stores resources under hash names): the
    # compression is recognised from the content
    for label, comp, name in (('gz under a cache name', gz, '5f1e0c2a9b7d4e6f8a0b1c2d3e4f5a6b7c8d9e0f'),
                              ('xz under a cache name', xz, '0a1b2c3d4e5f60718293a4b5c6d7e8f901234567'),
                              ('gz named .xml', gz, 'r_compressed.xml')):
        dst_ = os.path.join(work, name)
        shutil.copy(comp, dst_)
        routes[label] = dst_
    pkg = os.path.join(work, 'pkg')
    os.makedirs(pkg)
    shutil.copy(xml_path, os.path.join(pkg, 'lex.xml'))
    for extra in ('README.md', 'LICENSE', 'citation.bib'):
        open(os.path.join(pkg, extra), 'w').write('ILI identifiers in this wordnet follow CILI 1.0.\nextra file\n')
    routes['package'] = pkg
    coll = os.path.join(work, 'coll')
    os.makedirs(coll)
    shutil.copytree(pkg, os.path.join(coll, 'pkg1'))
    open(os.path.join(coll, 'README.md'), 'w').write('collection\n')
    routes['collection'] = coll
    for name, member, mode in (('tar-file', xml_path, 'w'), ('tar.gz-package', pkg, 'w:gz'),
                               ('tar.xz-collection', coll, 'w:xz'), ('tar-package', pkg, 'w'),
                               ('tar.gz-file', xml_path, 'w:gz')):
        t = os.path.join(work, name + ('.tar' if mode == 'w' else '.tar.' + mode[2:]))
        with tarfile.open(t, mode) as tf:
            tf.add(member, arcname=os.path.basename(member))
        routes[name] = t
    return routes


def _fresh(wn, work, name):
    d = os.path.join(work, 'db_' + name)
    os.makedirs(d, exist_ok=True)
    wn.config.data_directory = d
    wn.lexicons()
    return wn.config.database_path


def _job(version):
    import wn
    from wn import lmf
    work = tempfile.mkdtemp(prefix='wnroute')
    old = wn.config.data_directory
    problems = []
    cases = 0
    try:
        base = lmfgen.full_lexicon(version, meta=lmfgen.META_FULL)
        lexicons = [base, lmfgen.minimal_lexicon('m2')]
        # (an extension in the same file as its base is skipped by the first add - base not installed yet - and
        #  added by the second one: both as the property states; extensions are exercised below)
        xml = os.path.join(work, 'lex.xml')
        lmf.dump({'lmf_version': version, 'lexicons': lexicons}, xml)
        routes = make_routes(work, xml)
        sums = {r: sha(p) for r, p in routes.items()}
        dumps = {}
        for r, p in routes.items():
            cases += 1
            db = _fresh(wn, work, f'{version}_{r}')
            try:
                wn.add(p, progress_handler=None)
            except Exception as exc:   # noqa: BLE001
                problems.append(f'{version} route {r}: {type(exc).__name__}: {exc}')
                continue
            dumps[r] = logical_dump(db)
            # adding the same source again changes nothing
            wn.add(p, progress_handler=None)
            if logical_dump(db) != dumps[r]:
                problems.append(f'{version} route {r}: adding the same source twice changed the database')
            if sha(p) != sums[r]:
                problems.append(f'{version} route {r}: the input was modified')
        # in-memory route
        cases += 1
        db = _fresh(wn, work, f'{version}_memory')
        res = lmf.load(xml, progress_handler=None)
        before = copy.deepcopy(res)
        wn.add_lexical_resource(res, progress_handler=None)
        dumps['memory'] = logical_dump(db)
        if res != before:
            problems.append(f'{version} in-memory route: the resource was modified')
        wn.add_lexical_resource(res, progress_handler=None)
        if logical_dump(db) != dumps['memory']:
            problems.append(f'{version} in-memory route: adding twice changed the database')
        ref = dumps.get('xml')
        for r, d in dumps.items():
            if d != ref:
                diff = [t for t in d if d[t] != ref.get(t)]
                problems.append(f'{version} route {r}: database differs from the plain-xml route in tables {diff}')
        # a collection of two mutually independent packages (directory and tar.gz): the same content as adding the two
        # files one after the other (in one of the two orders - the order of the packages is the file system's)
        cases += 1
        xa, xb = os.path.join(work, 'a.xml'), os.path.join(work, 'b.xml')
        lmf.dump({'lmf_version': version, 'lexicons': [base]}, xa)
        lmf.dump({'lmf_version': version, 'lexicons': [lmfgen.minimal_lexicon('m2')]}, xb)
        coll2 = os.path.join(work, 'coll2')
        for name, x in (('pa', xa), ('pb', xb)):
            os.makedirs(os.path.join(coll2, name))
            shutil.copy(x, os.path.join(coll2, name, 'lex.xml'))
            open(os.path.join(coll2, name, 'README.md'), 'w').write('package ' + name + '\n')
        tar2 = os.path.join(work, 'coll2.tar.gz')
        with tarfile.open(tar2, 'w:gz') as tf:
            tf.add(coll2, arcname='coll2')
        refs = []
        for order in ((xa, xb), (xb, xa)):
            db = _fresh(wn, work, f'{version}_two_{len(refs)}')
            for x in order:
                wn.add(x, progress_handler=None)
            refs.append(logical_dump(db))
        for label, src_ in (('collection of two packages', coll2), ('tar.gz of a collection of two packages', tar2)):
            db = _fresh(wn, work, f'{version}_{"dir" if src_ == coll2 else "tar"}2')
            try:
                wn.add(src_, progress_handler=None)
                if logical_dump(db) not in refs:
                    problems.append(f'{version} {label}: database differs from adding the two files one by one')
            except Exception as exc:   # noqa: BLE001
                problems.append(f'{version} {label}: {type(exc).__name__}: {exc}')
        # a package whose extra files include a sub-directory with another WN-LMF file (an older release kept for
        # reference): still a package - its own resource is added, not the nested one
        cases += 1
        nested = os.path.join(work, 'nestedpkg')
        os.makedirs(os.path.join(nested, 'previous'))
        shutil.copy(xa, os.path.join(nested, 'lex.xml'))
        shutil.copy(xb, os.path.join(nested, 'previous', 'old.xml'))
        open(os.path.join(nested, 'README.md'), 'w').write('package with an older release in previous/\n')
        db = _fresh(wn, work, f'{version}_ref_a')
        wn.add(xa, progress_handler=None)
        ref_a = logical_dump(db)
        ntar = os.path.join(work, 'nestedpkg.tar.gz')
        with tarfile.open(ntar, 'w:gz') as tf:
            tf.add(nested, arcname='nestedpkg')
        for label, src_ in (('package with a nested directory', nested), ('tar.gz of such a package', ntar)):
            db = _fresh(wn, work, f'{version}_nested_{"dir" if src_ == nested else "tar"}')
            try:
                wn.add(src_, progress_handler=None)
                if logical_dump(db) != ref_a:
                    problems.append(f'{version} {label}: database differs from adding the package\'s own resource file')
            except Exception as exc:   # noqa: BLE001
                problems.append(f'{version} {label}: {type(exc).__name__}: {exc}')
        # the same document with an XML declaration in single quotes (what ElementTree / lxml write; lmf._read_header
        # accepts it): every file route must take it like the plain file dumped by wn
        cases += 1
        text = open(xa, encoding='utf-8').read()
        head, rest = text.split('\n', 1)
        sq = os.path.join(work, 'sq.xml')
        open(sq, 'w', encoding='utf-8').write(head.replace('"', "'") + '\n' + rest)
        sq_routes = {'xml': sq}
        for suffix, opener in (('.gz', gzip.open), ('.xz', lzma.open)):
            with open(sq, 'rb') as src_, opener(sq + suffix, 'wb') as dst_:
                shutil.copyfileobj(src_, dst_)
            sq_routes[suffix[1:]] = sq + suffix
        sqpkg = os.path.join(work, 'sqpkg')
        os.makedirs(sqpkg)
        shutil.copy(sq, os.path.join(sqpkg, 'lex.xml'))
        sq_routes['package'] = sqpkg
        for r, p_ in sq_routes.items():
            db = _fresh(wn, work, f'{version}_sq_{r}')
            try:
                wn.add(p_, progress_handler=None)
                if logical_dump(db) != ref_a:
                    problems.append(f'{version} single-quoted declaration, route {r}: database differs')
            except Exception as exc:   # noqa: BLE001
                problems.append(f'{version} single-quoted declaration, route {r}: {type(exc).__name__}: {exc}')
        # an extension whose base is not installed is skipped as a whole; a partially installed file adds the rest
        if version != '1.0':
            cases += 1
            ext_only = os.path.join(work, 'ext.xml')
            lmf.dump({'lmf_version': version, 'lexicons': [lmfgen.full_lexicon(version, extension=True)]}, ext_only)
            db = _fresh(wn, work, f'{version}_extonly')
            empty = logical_dump(db)
            wn.add(ext_only, progress_handler=None)
            if logical_dump(db) != empty:
                problems.append(f'{version}: an extension without its base was (partly) added')
            wn.add_lexical_resource(lmf.load(ext_only, progress_handler=None), progress_handler=None)
            if logical_dump(db) != empty:
                problems.append(f'{version}: an in-memory extension without its base was (partly) added')
            # with the base installed: same content through file (gz) and in-memory route, idempotent
            ext_gz = os.path.join(work, 'ext.xml.gz')
            with open(ext_only, 'rb') as src, gzip.open(ext_gz, 'wb') as dst:
                shutil.copyfileobj(src, dst)
            db = _fresh(wn, work, f'{version}_ext_file')
            wn.add(xml, progress_handler=None)
            wn.add(ext_gz, progress_handler=None)
            d1 = logical_dump(db)
            wn.add(ext_gz, progress_handler=None)
            if logical_dump(db) != d1:
                problems.append(f'{version}: adding an installed extension again changed the database')
            db = _fresh(wn, work, f'{version}_ext_mem')
            wn.add(xml, progress_handler=None)
            wn.add_lexical_resource(lmf.load(ext_only, progress_handler=None), progress_handler=None)
            if logical_dump(db) != d1:
                problems.append(f'{version}: extension through the in-memory route differs from the file route')
            if len(d1['lexicons']) != 3:
                problems.append(f'{version}: extension with installed base was not added')
        # a small resource (decompressed size below one buffer of the copy loop) through the compressed routes
        cases += 1
        tiny = os.path.join(work, 'tiny.xml')
        lmf.dump({'lmf_version': version, 'lexicons': [lmfgen.minimal_lexicon('tiny')]}, tiny)
        ref = None
        for suffix, opener in (('', None), ('.gz', gzip.open), ('.xz', lzma.open)):
            path = tiny + suffix
            if opener:
                with open(tiny, 'rb') as src, opener(path, 'wb') as dst:
                    shutil.copyfileobj(src, dst)
            db = _fresh(wn, work, f'{version}_tiny{suffix}')
            try:
                wn.add(path, progress_handler=None)
            except Exception as exc:   # noqa: BLE001
                problems.append(f'{version} tiny resource via {suffix or "xml"}: {type(exc).__name__}: {exc}')
                continue
            d = logical_dump(db)
            if ref is None:
                ref = d
            elif d != ref:
                problems.append(f'{version} tiny resource via {suffix}: database differs from the plain-xml route')
        cases += 1
        first = os.path.join(work, 'first.xml')
        lmf.dump({'lmf_version': version, 'lexicons': [lmfgen.minimal_lexicon('m2')]}, first)
        two = os.path.join(work, 'two.xml')
        lmf.dump({'lmf_version': version, 'lexicons': [lmfgen.minimal_lexicon('m2'), lmfgen.full_lexicon(version)]},
                 two)
        db = _fresh(wn, work, f'{version}_partial_file')
        wn.add(first, progress_handler=None)
        wn.add(two, progress_handler=None)
        d_file = logical_dump(db)
        db = _fresh(wn, work, f'{version}_partial_mem')
        wn.add_lexical_resource(lmf.load(first, progress_handler=None), progress_handler=None)
        wn.add_lexical_resource(lmf.load(two, progress_handler=None), progress_handler=None)
        if logical_dump(db) != d_file:
            problems.append(f'{version}: file with one installed and one new lexicon: file route and in-memory route '
                            'differ')
        if len(d_file['lexicons']) != 2:
            problems.append(f'{version}: file with one installed and one new lexicon: {len(d_file["lexicons"])} '
                            'lexicons stored, expected 2')
    except Exception as exc:   # noqa: BLE001
        import traceback
        problems.append(f'{version}: {type(exc).__name__}: {exc} ' + traceback.format_exc()[-500:])
    finally:
        wn.config.data_directory = old
        shutil.rmtree(work, ignore_errors=True)
    return cases, problems


def sweep():
    cases, problems = 0, []
    with ProcessPoolExecutor(3) as ex:
        for c, p in ex.map(_job, VERSIONS):
            cases += c
            problems += p
    return cases, problems
