"""Bounded stand-in for C02 (and the document pool for C20): dump -> load -> dump on generated resources, run on the
real wn.lmf. Never counted as proved."""
from __future__ import annotations

import copy
import os
import shutil
import tempfile
from concurrent.futures import ProcessPoolExecutor

from bounded import lmfgen

VERSIONS = ['1.0', '1.1', '1.2', '1.3']


def diff(a, b, path='') -> list:
    """Paths where two loaded resources differ (first 6)."""
    out = []
    if isinstance(a, dict) and isinstance(b, dict):
        for k in sorted(set(a) | set(b), key=str):
            if k not in a:
                out.append(f'{path}/{k}: only in expected ({b[k]!r:.60})')
            elif k not in b:
                out.append(f'{path}/{k}: only in reloaded ({a[k]!r:.60})')
            else:
                out += diff(a[k], b[k], f'{path}/{k}')
    elif isinstance(a, list) and isinstance(b, list):
        if len(a) != len(b):
            out.append(f'{path}: list length {len(a)} (reloaded) != {len(b)} (expected)')
        for i, (x, y) in enumerate(zip(a, b)):
            out += diff(x, y, f'{path}[{i}]')
    elif a != b or type(a) is not type(b):
        out.append(f'{path}: reloaded {a!r} != expected {b!r}')
    return [o for o in out if o][:6]


def roundtrip(resource, version, workdir):
    """Returns (problems, bytes of first dump)."""
    from wn import lmf
    problems = []
    before = copy.deepcopy(resource)
    p1 = os.path.join(workdir, 'a.xml')
    p2 = os.path.join(workdir, 'b.xml')
    lmf.dump(resource, p1)
    if resource != before:
        problems.append('dump() modified the resource')
    if not lmf.is_lmf(p1):
        problems.append('is_lmf() rejects the dumped file')
    loaded = lmf.load(p1, progress_handler=None)
    expected = lmfgen.project(before, version)
    d = diff(loaded, expected)
    if d:
        problems.append('load(dump(R)) != R restricted to the version: ' + '; '.join(d))
    lmf.dump(loaded, p2)
    b1 = open(p1, 'rb').read()
    b2 = open(p2, 'rb').read()
    if b1 != b2:
        problems.append('dump(load(F)) is not a fixed point (bytes differ)')
    return problems, b1


def _job(args):
    version, thorough = args
    work = tempfile.mkdtemp(prefix='wnrt')
    res = []
    try:
        for label, resource in lmfgen.resources(version, thorough):
            try:
                problems, _ = roundtrip(resource, version, work)
            except Exception as exc:   # noqa: BLE001
                problems = [f'{type(exc).__name__}: {exc}']
            res.append((version, label, problems, resource if problems else None))
    finally:
        shutil.rmtree(work, ignore_errors=True)
    return res


def sweep(thorough: bool):
    with ProcessPoolExecutor(4) as ex:
        out = []
        for r in ex.map(_job, [(v, thorough) for v in VERSIONS]):
            out += r
    return out


def k7_probe():
    """Optional attributes holding the empty string (known finding K7)."""
    work = tempfile.mkdtemp(prefix='wnrt')
    try:
        lex = lmfgen.full_lexicon('1.1')
        lex['entries'][0]['lemma']['script'] = ''
        problems, _ = roundtrip({'lmf_version': '1.1', 'lexicons': [lex]}, '1.1', work)
        return problems
    finally:
        shutil.rmtree(work, ignore_errors=True)


def k19_probe():
    """An explicit lexicalized / phonemic = True (known finding K19): compared strictly, key by key."""
    from wn import lmf
    work = tempfile.mkdtemp(prefix='wnrt')
    try:
        lex = lmfgen.full_lexicon('1.1')
        lex['synsets'][0]['lexicalized'] = True
        lex['entries'][0]['senses'][0]['lexicalized'] = True
        path = os.path.join(work, 'k19.xml')
        lmf.dump({'lmf_version': '1.1', 'lexicons': [lex]}, path)
        got = lmf.load(path, progress_handler=None)['lexicons'][0]
        problems = []
        if 'lexicalized' not in got['synsets'][0]:
            problems.append("/lexicons[0]/synsets[0]/lexicalized: only in expected (True)")
        if 'lexicalized' not in got['entries'][0]['senses'][0]:
            problems.append("/lexicons[0]/entries[0]/senses[0]/lexicalized: only in expected (True)")
        return problems
    finally:
        shutil.rmtree(work, ignore_errors=True)


def k24_probe():
    """Text kept verbatim under xml:space="preserve" (known finding K24): dump never writes the attribute."""
    from wn import lmf
    work = tempfile.mkdtemp(prefix='wnrt')
    try:
        lex = lmfgen.full_lexicon('1.3')
        path = os.path.join(work, 'a.xml')
        lmf.dump({'lmf_version': '1.3', 'lexicons': [lex]}, path)
        text = open(path, encoding='utf-8').read()
        import re
        text2, n = re.subn(r'<Definition([^>]*)>[^<]*</Definition>',
                           r'<Definition\1 xml:space="preserve">line one\n   line two</Definition>', text, count=1)
        if not n:
            return ['harness: no <Definition> element to rewrite']
        src = os.path.join(work, 'b.xml')
        open(src, 'w', encoding='utf-8').write(text2)
        r1 = lmf.load(src, progress_handler=None)
        out = os.path.join(work, 'c.xml')
        lmf.dump(r1, out)
        r2 = lmf.load(out, progress_handler=None)

        def defs(r):
            return [d['text'] for ss in r['lexicons'][0]['synsets'] for d in ss.get('definitions', [])]
        return [f'definition text {a!r} reloaded as {b!r}' for a, b in zip(defs(r1), defs(r2)) if a != b]
    finally:
        shutil.rmtree(work, ignore_errors=True)
