"""Bounded stand-in for C02 (and the document pool for C20): dump -> load -> dump on generated resources, run on the
real wn.lmf. Never counted as proved."""
from __future__ import annotations

import copy
import os
import shutil
import tempfile
from concurrent.futures import ProcessPoolExecutor

from bounded import lmfgen

VERSIONS = ['1.0', '1.1', '1.2', '1.3']


def diff(a, b, path='') -> list:
    """Paths where two loaded resources differ (first 6)."""
    out = []
    if isinstance(a, dict) and isinstance(b, dict):
        for k in sorted(set(a) | set(b), key=str):
            if k not in a:
                out.append(f'{path}/{k}: only in expected ({b[k]!r:.60})')
            elif k not in b:
                out.append(f'{path}/{k}: only in reloaded ({a[k]!r:.60})')
            else:
                out += diff(a[k], b[k], f'{path}/{k}')
    elif isinstance(a, list) and isinstance(b, list):
        if len(a) != len(b):
            out.append(f'{path}: list length {len(a)} (reloaded) != {len(b)} (expected)')
        for i, (x, y) in enumerate(zip(a, b)):
            out += diff(x, y, f'{path}[{i}]')
    elif a != b or type(a) is not type(b):
        out.append(f'{path}: reloaded {a!r} != expected {b!r}')
    return [o for o in out if o][:6]


def roundtrip(resource, version, workdir):
    """Returns (problems, bytes of first dump)."""
    from wn import lmf
    problems = []
    before = copy.deepcopy(resource)
    p1 = os.path.join(workdir, 'a.xml')
    p2 = os.path.join(workdir, 'b.xml')
    lmf.dump(resource, p1)
    if resource != before:
        problems.append('dump() modified the resource')
    if not lmf.is_lmf(p1):
        problems.append('is_lmf() rejects the dumped file')
    loaded = lmf.load(p1, progress_handler=None)
    expected = lmfgen.project(before, version)
    d = diff(loaded, expected)
    if d:
        problems.append('load(dump(R)) != R restricted to the version: ' + '; '.join(d))
    lmf.dump(loaded, p2)
    b1 = open(p1, 'rb').read()
    b2 = open(p2, 'rb').read()
    if b1 != b2:
        problems.append('dump(load(F)) is not a fixed point (bytes differ)')
    return problems, b1


def _job(args):
    version, thorough = args
    work = tempfile.mkdtemp(prefix='wnrt')
    res = []
    try:
        for label, resource in lmfgen.resources(version, thorough):
            try:
                problems, _ = roundtrip(resource, version, work)
            except Exception as exc:   # noqa: BLE001
                problems = [f'{type(exc).__name__}: {exc}']
            res.append((version, label, problems, resource if problems else None))
    finally:
        shutil.rmtree(work, ignore_errors=True)
    return res


def sweep(thorough: bool):
    with ProcessPoolExecutor(4) as ex:
        out = []
        for r in ex.map(_job, [(v, thorough) for v in VERSIONS]):
            out += r
    return out


def k7_probe():
    """Optional attributes holding the empty string (known finding K7)."""
    work = tempfile.mkdtemp(prefix='wnrt')
    try:
        lex = lmfgen.full_lexicon('1.1')
        lex['entries'][0]['lemma']['script'] = ''
        problems, _ = roundtrip({'lmf_version': '1.1', 'lexicons': [lex]}, '1.1', work)
        return problems
    finally:
        shutil.rmtree(work, ignore_errors=True)
