"""Generator of WN-LMF resources in the loader's normal form (what lmf.load itself returns) and the projection of a
resource onto what a given LMF version can express (sidecar knowledge of the WN-LMF 1.0-1.3 DTDs: pronunciations,
form ids, members, lexfile, logo, Requires/Extends/extensions, subcat and lexicon-level frames need >= 1.1; entry
level frames are 1.0 only)."""
from __future__ import annotations

import copy
import itertools

NASTY = ['plain', 'with space', 'quote"dq', "apos'sq", 'lt<gt>', 'amp&amp;', 'tab\tin', 'nl\nin', 'cr\rx',
         'non-bmp \U0001F600', 'ünïcödé', '  lead-trail  ', ']]>', '&#10;', 'id="zzz"']
# text content is whitespace-normalised by the reader: use normalised values there
NASTY_TEXT = ['plain', 'two words', 'quote"dq', "apos'sq", 'lt<gt>', 'amp&amp;', 'non-bmp \U0001F600', ']]>',
              '&#10;', '<b>markup</b>']

META_FULL = {'contributor': 'c', 'coverage': 'cov', 'creator': 'cr', 'date': 'd', 'description': 'desc',
             'format': 'f', 'identifier': 'i', 'publisher': 'p', 'relation': 'r', 'rights': 'ri', 'source': 's',
             'subject': 'su', 'title': 't', 'type': 'ty', 'status': 'st', 'note': 'n', 'confidenceScore': '0.9'}


def full_lexicon(version: str, extension: bool = False, meta=None, s='x'):
    """A lexicon using every construct the version offers; `s` is the string put into the string-valued fields."""
    m = lambda: (copy.deepcopy(meta) if meta is not None else None)
    v11 = version != '1.0'
    sense1 = {'id': 'l-s1', 'synset': 'l-ss1', 'meta': m(),
              'relations': [{'target': 'l-s2', 'relType': 'antonym', 'meta': m()},
                            {'target': 'l-ss2', 'relType': 'domain_topic', 'meta': m()}],
              'examples': [{'text': s, 'language': 'en', 'meta': m()}, {'text': 'second', 'meta': m()}],
              'counts': [{'value': 3, 'meta': m()}, {'value': 0, 'meta': m()}],
              'lexicalized': False, 'adjposition': 'a'}
    sense2 = {'id': 'l-s2', 'synset': 'l-ss2', 'meta': m()}
    if v11:
        sense1['subcat'] = ['l-f1', 'l-f2']
    lemma = {'writtenForm': s, 'partOfSpeech': 'n', 'script': 'Latn', 'tags': [{'text': s, 'category': 'cat'}]}
    form = {'writtenForm': 'forms', 'script': 'Latn', 'tags': [{'text': 't', 'category': s}]}
    if v11:
        lemma['pronunciations'] = [{'text': s, 'variety': 'GB', 'notation': 'ipa', 'phonemic': False,
                                    'audio': 'http://a/' + 'x'}, {'text': 'p2'}]
        form['id'] = 'l-form1'
        form['pronunciations'] = [{'text': 'p'}]
    entry1 = {'id': 'l-e1', 'meta': m(), 'lemma': lemma, 'forms': [form, {'writtenForm': 'third'}],
              'senses': [sense1, sense2]}
    entry2 = {'id': 'l-e2', 'meta': m(), 'lemma': {'writtenForm': 'w2', 'partOfSpeech': 'v'}}
    if not v11:
        entry1['frames'] = [{'subcategorizationFrame': 'F one', 'senses': ['l-s1']},
                            {'subcategorizationFrame': 'F two'}]
    ss1 = {'id': 'l-ss1', 'ili': 'i1', 'partOfSpeech': 'n', 'meta': m(), 'lexicalized': False,
           'definitions': [{'text': s, 'language': 'en', 'sourceSense': 'l-s1', 'meta': m()},
                           {'text': 'second def', 'meta': m()}],
           'ili_definition': {'text': 'ili ' + 'def', 'meta': m()},
           'relations': [{'target': 'l-ss2', 'relType': 'hypernym', 'meta': m()}],
           'examples': [{'text': s, 'language': 'en', 'meta': m()}]}
    ss2 = {'id': 'l-ss2', 'ili': 'in', 'partOfSpeech': 'n', 'meta': m(),
           'ili_definition': {'text': 'proposed', 'meta': m()}}
    ss3 = {'id': 'l-ss3', 'ili': '', 'meta': m()}
    if v11:
        ss1['members'] = ['l-s1']
        ss1['lexfile'] = 'noun.' + 'x'
    lex = {'id': 'l', 'label': s, 'language': 'en', 'email': 'a@b.c', 'license': 'https://l/' + 'x', 'version': '1.0',
           'url': 'https://u/' + 'x', 'citation': s, 'meta': m(), 'entries': [entry1, entry2],
           'synsets': [ss1, ss2, ss3]}
    if v11:
        lex['logo'] = 'logo.svg'
        lex['requires'] = [{'id': 'dep', 'version': '1', 'url': 'https://d/'}, {'id': 'dep2', 'version': '2'}]
        lex['frames'] = [{'id': 'l-f1', 'subcategorizationFrame': 'F one'},
                         {'id': 'l-f2', 'subcategorizationFrame': s}]
    if extension and v11:
        lex['id'] = 'lx'
        lex['extends'] = {'id': 'l', 'version': '1.0', 'url': 'https://b/'}
        lex['entries'] = [
            {'id': 'l-e1', 'external': True,
             'lemma': {'external': True, 'tags': [{'text': 'xt', 'category': 'c'}],
                       'pronunciations': [{'text': 'xp', 'phonemic': False}]},
             'forms': [{'id': 'l-form1', 'external': True, 'tags': [{'text': 'ft', 'category': 'c'}],
                        'pronunciations': [{'text': 'fp', 'phonemic': False}]},
                       {'id': 'lx-form2', 'writtenForm': 'newform'}],
             'senses': [{'id': 'l-s1', 'external': True,
                         'relations': [{'target': 'lx-s9', 'relType': 'also', 'meta': m()}],
                         'examples': [{'text': 'ext ex', 'meta': m()}], 'counts': [{'value': 7, 'meta': m()}]},
                        {'id': 'lx-s9', 'synset': 'l-ss1', 'meta': m()}]},
            {'id': 'lx-e9', 'meta': m(), 'lemma': {'writtenForm': 'nine', 'partOfSpeech': 'n'},
             'senses': [{'id': 'lx-s10', 'synset': 'lx-ss9', 'meta': m()}]},
        ]
        lex['synsets'] = [
            {'id': 'l-ss1', 'external': True, 'definitions': [{'text': 'ext def', 'meta': m()}],
             'relations': [{'target': 'lx-ss9', 'relType': 'hyponym', 'meta': m()}],
             'examples': [{'text': 'ext ss ex', 'meta': m()}]},
            {'id': 'lx-ss9', 'ili': '', 'partOfSpeech': 'n', 'meta': m()},
        ]
        lex['frames'] = [{'id': 'lx-f1', 'subcategorizationFrame': 'X one'}]
    return lex


def resources(version: str, thorough: bool = False):
    """(label, resource) pairs."""
    yield 'full', {'lmf_version': version, 'lexicons': [full_lexicon(version)]}
    yield 'full+meta', {'lmf_version': version, 'lexicons': [full_lexicon(version, meta=META_FULL)]}
    yield 'meta-single', {'lmf_version': version, 'lexicons': [full_lexicon(version, meta={'source': 'only source'})]}
    if version != '1.0':
        yield 'extension', {'lmf_version': version,
                            'lexicons': [full_lexicon(version), full_lexicon(version, extension=True, meta=META_FULL)]}
    yield 'two-lexicons', {'lmf_version': version, 'lexicons': [full_lexicon(version), minimal_lexicon('m2')]}
    yield 'minimal', {'lmf_version': version, 'lexicons': [minimal_lexicon('m')]}
    yield 'empty', {'lmf_version': version, 'lexicons': []}
    pool_attr = NASTY if thorough else NASTY[:10]
    for k, s in enumerate(pool_attr):
        # attribute values: label, citation, written forms, tag category, frame, metadata values
        lex = full_lexicon(version, meta={'source': s, 'note': s}, s='plain')
        lex['label'] = s
        lex['citation'] = s
        lex['entries'][0]['lemma']['writtenForm'] = s
        lex['entries'][0]['forms'][0]['tags'][0]['category'] = s
        if 'frames' in lex:
            lex['frames'][1]['subcategorizationFrame'] = s
        yield f'attr-value-{k}', {'lmf_version': version, 'lexicons': [lex]}
    for k, s in enumerate(NASTY_TEXT):
        yield f'text-value-{k}', {'lmf_version': version, 'lexicons': [text_lexicon(version, s)]}
    # each optional piece absent, one at a time
    for path in OPTIONAL_PATHS:
        lex = full_lexicon(version, meta=META_FULL)
        if _delete(lex, path):
            yield 'without-' + '.'.join(map(str, path)), {'lmf_version': version, 'lexicons': [lex]}


def text_lexicon(version, s):
    lex = full_lexicon(version, s='plain')
    lex['entries'][0]['senses'][0]['examples'][0]['text'] = s
    lex['synsets'][0]['definitions'][0]['text'] = s
    lex['synsets'][0]['ili_definition']['text'] = s
    lex['synsets'][0]['examples'][0]['text'] = s
    lex['entries'][0]['lemma']['tags'][0]['text'] = s
    if 'pronunciations' in lex['entries'][0]['lemma']:
        lex['entries'][0]['lemma']['pronunciations'][0]['text'] = s
    return lex


def minimal_lexicon(lid):
    return {'id': lid, 'label': 'L', 'language': 'en', 'email': 'e', 'license': 'l', 'version': '1', 'meta': None}


OPTIONAL_PATHS = [
    ('url',), ('citation',), ('logo',), ('requires',), ('frames',), ('entries',), ('synsets',),
    ('entries', 0, 'forms'), ('entries', 0, 'senses'), ('entries', 0, 'frames'),
    ('entries', 0, 'lemma', 'script'), ('entries', 0, 'lemma', 'tags'), ('entries', 0, 'lemma', 'pronunciations'),
    ('entries', 0, 'forms', 0, 'id'), ('entries', 0, 'forms', 0, 'script'), ('entries', 0, 'forms', 0, 'tags'),
    ('entries', 0, 'forms', 0, 'pronunciations'),
    ('entries', 0, 'lemma', 'pronunciations', 0, 'variety'), ('entries', 0, 'lemma', 'pronunciations', 0, 'notation'),
    ('entries', 0, 'lemma', 'pronunciations', 0, 'phonemic'), ('entries', 0, 'lemma', 'pronunciations', 0, 'audio'),
    ('entries', 0, 'senses', 0, 'relations'), ('entries', 0, 'senses', 0, 'examples'),
    ('entries', 0, 'senses', 0, 'counts'), ('entries', 0, 'senses', 0, 'lexicalized'),
    ('entries', 0, 'senses', 0, 'adjposition'), ('entries', 0, 'senses', 0, 'subcat'),
    ('entries', 0, 'senses', 0, 'examples', 0, 'language'),
    ('synsets', 0, 'partOfSpeech'), ('synsets', 0, 'definitions'), ('synsets', 0, 'relations'),
    ('synsets', 0, 'examples'), ('synsets', 0, 'lexicalized'), ('synsets', 0, 'members'), ('synsets', 0, 'lexfile'),
    ('synsets', 0, 'ili_definition'), ('synsets', 0, 'definitions', 0, 'language'),
    ('synsets', 0, 'definitions', 0, 'sourceSense'), ('requires', 0, 'url'),
]


def _delete(obj, path):
    for k in path[:-1]:
        try:
            obj = obj[k]
        except (KeyError, IndexError, TypeError):
            return False
    if isinstance(obj, dict) and path[-1] in obj:
        del obj[path[-1]]
        return True
    return False


# ---- projection onto a version --------------------------------------------------------------------------------------

def project(resource, version: str):
    """What load(dump(resource, version)) must return: the resource without what `version` cannot express."""
    v11 = version != '1.0'
    out = {'lmf_version': version, 'lexicons': []}
    for lex in resource['lexicons']:
        lx = copy.deepcopy(lex)
        if not v11:
            for k in ('logo', 'requires', 'frames', 'extends'):
                lx.pop(k, None)
            for e in lx.get('entries', []):
                _strip_forms(e.get('lemma'))
                for f in e.get('forms', []):
                    _strip_forms(f)
                    f.pop('id', None)
                for s in e.get('senses', []):
                    s.pop('subcat', None)
            for ss in lx.get('synsets', []):
                ss.pop('members', None)
                ss.pop('lexfile', None)
        else:
            for e in lx.get('entries', []):
                e.pop('frames', None)
            for sb in lx.get('frames', []):
                sb.pop('senses', None)
        _normalise(lx)
        out['lexicons'].append(lx)
    return out


def _strip_forms(f):
    if f:
        f.pop('pronunciations', None)


def _normalise(lx):
    """Differences that are not information: empty optional lists are not written, default values of
    lexicalized (True) / phonemic (True) are not written."""
    def clean(d):
        if isinstance(d, dict):
            for k in list(d):
                v = d[k]
                if isinstance(v, list) and not v and k not in ('lexicons',):
                    del d[k]
                elif k in ('lexicalized', 'phonemic') and v is True:
                    del d[k]
                else:
                    clean(v)
        elif isinstance(d, list):
            for x in d:
                clean(x)
    clean(lx)
