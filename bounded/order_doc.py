"""Bounded stand-in for the part of C01 that rests on SQLite's row order where the queries have no ORDER BY (tags,
pronunciations, examples, counts, definitions): one plain lexicon whose repeated children are deliberately NOT in
sorted order and contain repeats, added through the real add() to a real database and read back through the public
API.  Every reported sequence must be the document's sequence (same elements, same order, same multiplicity)."""
from __future__ import annotations

import os
import shutil
import tempfile


def document():
    tag = lambda t, c: {'text': t, 'category': c}   # noqa: E731
    def pron(t, v=None, **kw):
        return {'text': t, **({'variety': v} if v else {}), **kw}
    ex = lambda t: {'text': t, 'meta': None}   # noqa: E731
    lemma_tags = [tag('VBZ', 'penn'), tag('3sg', 'feat'), tag('VB', 'penn'), tag('Pres', 'feat'), tag('VBZ', 'penn')]
    form_tags = [tag('z', 'c2'), tag('a', 'c1'), tag('m', 'c0'), tag('a', 'c1')]
    lex = {
        'id': 'ord', 'label': 'order', 'language': 'en', 'email': 'e', 'license': 'l', 'version': '1', 'meta': None,
        'entries': [{
            'id': 'ord-w1', 'meta': None,
            'lemma': {'writtenForm': 'walks', 'partOfSpeech': 'v', 'tags': lemma_tags,
                      'pronunciations': [pron('wɔːks', 'GB', notation='ipa', phonemic=False, audio='http://a/1.ogg'),
                                         pron('wɑks', 'US', phonemic=True), pron('aaa', phonemic=False),
                                         pron('wɔːks', 'GB')]},
            'forms': [{'writtenForm': 'zwalk', 'tags': form_tags, 'pronunciations': [pron('zz'), pron('bb'), pron('mm')]},
                      {'writtenForm': 'awalk', 'tags': [tag('q', 'k'), tag('b', 'k')]},
                      {'writtenForm': 'mwalk'}],
            'senses': [
                {'id': 'ord-s-z', 'synset': 'ord-ss2', 'meta': None,
                 # two relations to the same synset that differ only in dc:type
                 'relations': [{'target': 'ord-ss1', 'relType': 'other', 'meta': {'type': 'zz'}},
                               {'target': 'ord-ss1', 'relType': 'other', 'meta': {'type': 'aa'}},
                               {'target': 'ord-ss3', 'relType': 'domain_topic', 'meta': None}],
                 'examples': [ex('zeta example'), ex('alpha example'), ex('mid example'), ex('alpha example')],
                 'counts': [{'value': 9, 'meta': None}, {'value': 1, 'meta': None}, {'value': 5, 'meta': None},
                            {'value': 1, 'meta': None}]},
                {'id': 'ord-s-a', 'synset': 'ord-ss1', 'meta': None,
                 'examples': [ex('b'), ex('a')], 'counts': [{'value': 2, 'meta': None}, {'value': 1, 'meta': None}]},
                {'id': 'ord-s-m', 'synset': 'ord-ss3', 'meta': None}],
        }],
        'synsets': [
            {'id': 'ord-ss1', 'ili': '', 'partOfSpeech': 'v', 'meta': None,
             'definitions': [{'text': 'zulu definition', 'meta': None}, {'text': 'alpha definition', 'meta': None}],
             'examples': [ex('yy'), ex('cc'), ex('pp'), ex('cc')]},
            {'id': 'ord-ss2', 'ili': '', 'partOfSpeech': 'v', 'meta': None,
             'definitions': [{'text': 'second synset', 'meta': None}], 'examples': [ex('2'), ex('1')]},
            {'id': 'ord-ss3', 'ili': '', 'meta': None},                      # partOfSpeech is optional on <Synset>
        ],
    }
    return {'lmf_version': '1.1', 'lexicons': [lex]}


def check():
    """[(what, reported, document)] for every sequence that differs."""
    import wn
    from wn import lmf
    from wn import _db as wndb
    doc = document()
    lex = doc['lexicons'][0]
    work = tempfile.mkdtemp(prefix='wnverif_order_')
    old = wn.config.data_directory
    bad = []
    try:
        os.makedirs(os.path.join(work, 'data'))
        wn.config.data_directory = os.path.join(work, 'data')
        path = os.path.join(work, 'ord.xml')
        lmf.dump(doc, path)
        # metadata attributes with an empty value (dump() itself never writes them): on the lexicon and on a sense
        text = open(path, encoding='utf-8').read()
        assert text.count('<Lexicon id="ord"') == 1 and text.count('<Sense id="ord-s-m"') == 1
        text = text.replace('<Lexicon id="ord"', '<Lexicon dc:source="" dc:publisher="p" id="ord"')
        text = text.replace('<Sense id="ord-s-m"', '<Sense dc:description="" id="ord-s-m"')
        open(path, 'w', encoding='utf-8').write(text)
        wn.add(path, progress_handler=None)
        w = wn.Wordnet('ord:1')

        def cmp(what, got, want):
            if list(got) != list(want):
                bad.append((what, list(got), list(want)))
        e = lex['entries'][0]
        word = w.word('ord-w1')
        forms = word.forms()
        cmp('Word.forms()', [str(f) for f in forms], [e['lemma']['writtenForm']] + [f['writtenForm'] for f in e['forms']])
        docforms = [e['lemma']] + e['forms']
        for f, d in zip(forms, docforms):
            cmp(f'Form({d["writtenForm"]}).tags()', [(t.tag, t.category) for t in f.tags()],
                [(t['text'], t['category']) for t in d.get('tags', [])])
            cmp(f'Form({d["writtenForm"]}).pronunciations()',
                [(p.value, p.variety, p.notation, p.phonemic, p.audio) for p in f.pronunciations()],
                [(p['text'], p.get('variety'), p.get('notation'), p.get('phonemic', True), p.get('audio'))
                 for p in d.get('pronunciations', [])])
        cmp('Word.senses()', [s.id for s in word.senses()], [s['id'] for s in e['senses']])
        for d in e['senses']:
            s = w.sense(d['id'])
            cmp(f'Sense({d["id"]}).examples()', s.examples(), [x['text'] for x in d.get('examples', [])])
            cmp(f'Sense({d["id"]}).counts()', [int(c) for c in s.counts()], [c['value'] for c in d.get('counts', [])])
        cmp('Lexicon.metadata()', sorted(w.lexicons()[0].metadata().items()), [('publisher', 'p'), ('source', '')])
        cmp('Sense(ord-s-m).metadata()', sorted(w.sense('ord-s-m').metadata().items()), [('description', '')])
        sz = w.sense('ord-s-z')
        cmp('Sense(ord-s-z).get_related_synsets(other)', sorted({x.id for x in sz.get_related_synsets('other')}),
            ['ord-ss1'])
        cmp('Sense(ord-s-z).get_related_synsets(domain_topic)', [x.id for x in sz.get_related_synsets('domain_topic')],
            ['ord-ss3'])
        cmp('Synset(ord-ss3).pos', [w.synset('ord-ss3').pos], [None])
        for d in lex['synsets']:
            ss = w.synset(d['id'])
            cmp(f'Synset({d["id"]}).examples()', ss.examples(), [x['text'] for x in d.get('examples', [])])
            cmp(f'Synset({d["id"]}).definition()', [ss.definition()],
                [d['definitions'][0]['text'] if d.get('definitions') else None])
    finally:
        for c in list(wndb.pool.values()):
            c.close()
        wndb.pool.clear()
        wn.config.data_directory = old
        shutil.rmtree(work, ignore_errors=True)
    return bad


if __name__ == '__main__':
    for b in check():
        print(b)
