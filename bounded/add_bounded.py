"""Bounded stand-ins (small-scope exhaustive execution of the REAL functions; never counted as proved).

_batch          contract: the yielded batches are non-empty, at most BATCH_SIZE long, and their concatenation
                is the input (this is the contract the symbolic execution of the _insert_* functions relies on)
_collect_frames contract: (frame) the lexicon passed in is not modified; (result) one behaviour per distinct
                frame string whose senses are: the frame's own `senses`, then every local sense naming the
                frame's id in `subcat`, then (WN-LMF 1.0) for every entry-level frame its `senses` or, if it has
                none, all senses of the entry - each link once per declaration
"""
from __future__ import annotations

import copy
import itertools

import wn._add as A


def check_batch(sizes=(1, 2, 3, 4), max_len=13):
    cases = 0
    bad = []
    orig = A.BATCH_SIZE
    try:
        for bs in sizes:
            A.BATCH_SIZE = bs
            for n in range(max_len + 1):
                data = list(range(n))
                for src in (data, iter(data), (x for x in data)):
                    batches = list(A._batch(src))
                    cases += 1
                    flat = [x for b in batches for x in b]
                    if flat != data or any(not b or len(b) > bs for b in batches):
                        bad.append({'BATCH_SIZE': bs, 'n': n, 'batches': batches})
    finally:
        A.BATCH_SIZE = orig
    # the real batch size at its boundaries
    for n in (0, 1, orig - 1, orig, orig + 1, 2 * orig, 2 * orig + 1):
        data = list(range(n))
        batches = list(A._batch(data))
        cases += 1
        flat = [x for b in batches for x in b]
        if flat != data or any(not b or len(b) > orig for b in batches):
            bad.append({'BATCH_SIZE': orig, 'n': n, 'lens': [len(b) for b in batches]})
    return cases, bad


def expected_frames(lex):
    """Specification of _collect_frames (see module docstring)."""
    out = {}      # frame string -> {'id':..., 'senses': [...]}
    by_id = {}
    for fr in lex.get('frames', []):
        b = {'subcategorizationFrame': fr['subcategorizationFrame'], 'senses': list(fr.get('senses', []))}
        if 'id' in fr:
            b['id'] = fr['id']
        out[fr['subcategorizationFrame']] = b
    for b in out.values():
        if b.get('id'):
            by_id[b['id']] = b
    for e in lex.get('entries', []):
        for s in e.get('senses', []):
            if s.get('external', False) is True:
                continue
            for sbid in s.get('subcat', []):
                by_id[sbid]['senses'].append(s['id'])
        if e.get('external', False) is True or not e.get('frames'):
            continue
        allsenses = [s['id'] for s in e.get('senses', [])]
        for fr in e.get('frames', []):
            key = fr['subcategorizationFrame']
            if key not in out:
                out[key] = {'subcategorizationFrame': key, 'senses': []}
            out[key]['senses'].extend(fr.get('senses', []) or allsenses)
    return list(out.values())


def small_lexicons():
    """All lexicons with <= 2 lexicon-level frames (with/without senses), <= 2 entries with <= 2 senses, every
    subcat subset, <= 1 entry-level frame per entry (with/without senses)."""
    frame_opts = [None, {'id': 'f1', 'subcategorizationFrame': 'F1'},
                  {'id': 'f1', 'subcategorizationFrame': 'F1', 'senses': ['s11']},
                  # a second frame WITHOUT id (ids are optional): two id-less frames must stay two frames
                  {'subcategorizationFrame': 'F5'}, {'subcategorizationFrame': 'F5', 'senses': ['s11']}]
    frame2_opts = [None, {'id': 'f2', 'subcategorizationFrame': 'F2'},
                   {'subcategorizationFrame': 'F4'}, {'subcategorizationFrame': 'F4', 'senses': ['s11']}]  # id optional
    subcats = [[], ['f1'], ['f2'], ['f1', 'f2']]
    eframes = [None, {'subcategorizationFrame': 'F1'}, {'subcategorizationFrame': 'F3'},
               {'subcategorizationFrame': 'F3', 'senses': ['s11']}]
    for f1, f2 in itertools.product(frame_opts, frame2_opts):
        frames = [copy.deepcopy(f) for f in (f1, f2) if f]
        ids = {f['id'] for f in frames if 'id' in f}
        for nsenses in (1, 2):
            for sc in itertools.product(subcats, repeat=nsenses):
                if any(set(x) - ids for x in sc):
                    continue
                for ef in eframes:
                    senses = []
                    for k, x in enumerate(sc):
                        s = {'id': f's1{k + 1}', 'synset': 'ss', 'meta': None}
                        if x:
                            s['subcat'] = list(x)
                        senses.append(s)
                    entry = {'id': 'e1', 'meta': None, 'lemma': {'writtenForm': 'w', 'partOfSpeech': 'n'},
                             'senses': senses}
                    if ef:
                        entry['frames'] = [copy.deepcopy(ef)]
                    lex = {'id': 'x', 'version': '1', 'label': 'l', 'language': 'en', 'email': 'e', 'license': 'l',
                           'meta': None, 'entries': [entry]}
                    if frames:
                        lex['frames'] = copy.deepcopy(frames)
                    yield lex
    # a lexicon extension: new senses (with subcat) on an EXTERNAL entry next to an external sense, plus a new entry
    for sc_new, sc_own in itertools.product(([], ['f1'], ['f1', 'f2']), repeat=2):
        ext_entry = {'id': 'base-e', 'external': True,
                     'senses': [{'id': 'base-s', 'external': True},
                                {'id': 'x-s1', 'synset': 'ss', 'meta': None, **({'subcat': list(sc_new)} if sc_new else {})}]}
        own_entry = {'id': 'x-e', 'meta': None, 'lemma': {'writtenForm': 'w', 'partOfSpeech': 'v'},
                     'senses': [{'id': 'x-s2', 'synset': 'ss', 'meta': None, **({'subcat': list(sc_own)} if sc_own else {})}]}
        yield {'id': 'x', 'version': '1', 'label': 'l', 'language': 'en', 'email': 'e', 'license': 'l', 'meta': None,
               'extends': {'id': 'base', 'version': '1'},
               'frames': [{'id': 'f1', 'subcategorizationFrame': 'F1'}, {'id': 'f2', 'subcategorizationFrame': 'F2'}],
               'entries': [ext_entry, own_entry]}
    # several entry-level frames per entry (with / without `senses`) and a later entry that uses some of them again:
    # every frame of every entry must end up with exactly its own senses
    efr = [{'subcategorizationFrame': 'F1'}, {'subcategorizationFrame': 'F2'},
           {'subcategorizationFrame': 'F3', 'senses': ['s12']}]
    for k1 in range(1, 8):
        fs1 = [copy.deepcopy(f) for i, f in enumerate(efr) if k1 >> i & 1]
        for k2 in range(0, 8):
            fs2 = [copy.deepcopy(f) for i, f in enumerate(efr[:2] + [{'subcategorizationFrame': 'F3'}]) if k2 >> i & 1]
            e1 = {'id': 'e1', 'meta': None, 'lemma': {'writtenForm': 'w', 'partOfSpeech': 'v'},
                  'senses': [{'id': 's11', 'synset': 'ss', 'meta': None}, {'id': 's12', 'synset': 'ss', 'meta': None}],
                  'frames': fs1}
            e2 = {'id': 'e2', 'meta': None, 'lemma': {'writtenForm': 'x', 'partOfSpeech': 'v'},
                  'senses': [{'id': 's21', 'synset': 'ss', 'meta': None}]}
            if fs2:
                e2['frames'] = fs2
            yield {'id': 'x', 'version': '1', 'label': 'l', 'language': 'en', 'email': 'e', 'license': 'l',
                   'meta': None, 'entries': [e1, e2]}


def check_collect_frames():
    cases = 0
    mutated, wrong = [], []
    for lex in small_lexicons():
        cases += 1
        before = copy.deepcopy(lex)
        want = expected_frames(copy.deepcopy(lex))
        try:
            got = A._collect_frames(lex)
        except Exception as exc:   # noqa: BLE001  - a valid lexicon must not make it raise
            wrong.append({'lexicon': before, 'got': f'{type(exc).__name__}: {exc}', 'want': want})
            continue
        if lex != before:
            mutated.append({'lexicon': before, 'after': copy.deepcopy(lex)})
        # compare with the specification computed on the pristine copy
        norm = lambda xs: sorted((b['subcategorizationFrame'], b.get('id'), tuple(b.get('senses', []))) for b in xs)
        if norm(got) != norm(want):
            wrong.append({'lexicon': before, 'got': got, 'want': want})
    return cases, mutated, wrong
