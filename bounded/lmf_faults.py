"""Bounded stand-in for C20: valid generated documents (several quoting / layout variants) and single-fault mutations
of them, fed to the real wn.lmf.load / is_lmf / scan_lexicons and wn.add. Never counted as proved."""
from __future__ import annotations

import os
import re
import shutil
import sqlite3
import tempfile
from concurrent.futures import ProcessPoolExecutor

from bounded import lmfgen

VERSIONS = ['1.0', '1.1', '1.2', '1.3']


def base_documents(version: str, work: str):
    """(label, text) of valid documents: what dump() writes for generated resources."""
    from wn import lmf
    docs = []
    pool = [('full', {'lmf_version': version, 'lexicons': [lmfgen.full_lexicon(version, meta=lmfgen.META_FULL)]}),
            ('two', {'lmf_version': version, 'lexicons': [lmfgen.full_lexicon(version),
                                                          lmfgen.minimal_lexicon('m2')]})]
    if version != '1.0':
        pool.append(('ext', {'lmf_version': version,
                             'lexicons': [lmfgen.full_lexicon(version),
                                          lmfgen.full_lexicon(version, extension=True)]}))
    for label, res in pool:
        p = os.path.join(work, 'doc.xml')
        lmf.dump(res, p)
        docs.append((label, open(p, encoding='utf-8').read()))
    return docs


def valid_variants(text: str):
    """Equivalent documents: other quoting, attribute layout, escaped characters."""
    yield 'as-dumped', text
    # single quotes for every attribute whose value has no apostrophe
    yield 'single-quoted', re.sub(r'="([^"\']*)"', r"='\1'", text)
    head, rest = text.split('\n', 2)[:2], text.split('\n', 2)[2]
    yield 'header-single-quoted', "\n".join(h.replace('"', "'") for h in head) + '\n' + rest
    # attribute order: version before id on the lexicon start tag
    yield 'lexicon-on-one-line', re.sub(r'\n\s+(label|language|email|license|version|url|citation|logo|dc:\w+|status|'
                                        r'note|confidenceScore)=', r' \1=', text)
    yield 'trailing-whitespace-header', text.replace('?>\n', '?>  \n', 1)
    # known finding K6: the pre-scan is a regular expression, not an XML parser
    yield 'K6:label-with-gt', re.sub(r'label="[^"]*"', 'label="a > b"', text, count=1)
    yield 'K6:label-with-apostrophe', re.sub(r'label="[^"]*"', 'label="it\'s"', text, count=1)
    yield 'K6:label-with-entity', re.sub(r'label="[^"]*"', 'label="a &amp; b"', text, count=1)
    yield 'K6:citation-quoting-an-id', re.sub(r'citation="[^"]*"', 'citation=\'see id="zzz"\'', text, count=1)
    yield 'K6:spaces-around-eq', re.sub(r'<Lexicon id=', '<Lexicon  id = ', text, count=1)
    yield 'K6:comment-with-a-lexicon-tag', text.replace(
        '<LexicalResource', '<!-- a <Lexicon id="c" version="9"> in a comment -->\n<LexicalResource', 1)
    yield 'K6:empty-label', re.sub(r'label="[^"]*"', 'label=""', text, count=1)
    yield 'K6:line-break-in-label', re.sub(r'label="[^"]*"', 'label="two\nlines"', text, count=1)


def faults(text: str, version: str):
    """(label, mutated text): each must be rejected."""
    lines = text.split('\n')
    yield 'no-xml-declaration', '\n'.join(lines[1:])
    yield 'no-doctype', '\n'.join(lines[:1] + lines[2:])
    yield 'doctype-other-dtd', text.replace('WN-LMF-' + version, 'WN-LMF-9.9', 1)
    yield 'xmldecl-other-encoding', text.replace('encoding="UTF-8"', 'encoding="latin-1"', 1)
    yield 'blank-first-line', '\n' + text
    yield 'utf8-bom', '\ufeff' + text                 # the header must be the first bytes (is_lmf and load agree on it)
    yield 'unbalanced-tag', text.replace('</Synset>', '', 1)
    yield 'unclosed-root', text.replace('</LexicalResource>', '', 1)
    yield 'stray-ampersand', text.replace('label="', 'label="& ', 1)
    yield 'unknown-element', text.replace('<Synset ', '<Foo/><Synset ', 1)
    yield 'renamed-element', text.replace('<Lemma ', '<Lema ', 1).replace('</Lemma>', '</Lema>', 1) \
        if '</Lemma>' in text else text.replace('<Lemma ', '<Lema ', 1)
    # known finding K25: nothing to add for the regex pre-scan -> add() returns without ever parsing the document
    yield 'K25:renamed-lexicon', text.replace('<Lexicon ', '<Lexicn ', 1).replace('</Lexicon>', '</Lexicn>', 1) \
        if '<Lexicon ' in text else text
    if version == '1.0':
        yield 'element-of-later-version:Pronunciation', re.sub(r'(<Lemma [^>]*?)/>', r'\1><Pronunciation>x</Pronunciation></Lemma>', text, count=1) \
            if re.search(r'<Lemma [^>]*/>', text) else text.replace('</Lemma>', '<Pronunciation>x</Pronunciation></Lemma>', 1)
        yield 'element-of-later-version:Requires', text.replace('<LexicalEntry ', '<Requires id="d" version="1"/><LexicalEntry ', 1)
        yield 'element-of-later-version:ExternalSynset', text.replace('<Synset ', '<ExternalSynset id="q"/><Synset ', 1)
        yield 'element-of-later-version:LexiconExtension', text.replace(
            '</LexicalResource>', '<LexiconExtension id="x" label="x" language="en" email="e" license="l" '
            'version="1"><Extends id="l" version="1.0"/></LexiconExtension></LexicalResource>', 1)
    yield 'duplicate-lemma', re.sub(r'(<Lemma [^>]*?/>|<Lemma .*?</Lemma>)', r'\1\1', text, count=1, flags=re.S)
    if '<ILIDefinition' in text:
        yield 'duplicate-ili-definition', re.sub(r'(<ILIDefinition.*?</ILIDefinition>)', r'\1\1', text, count=1,
                                                 flags=re.S)
    if '<Extends' in text:
        yield 'duplicate-extends', re.sub(r'(<Extends [^>]*/>)', r'\1\1', text, count=1)
    for elem, attr in (('Lexicon', 'id'), ('Lexicon', 'version'), ('Lexicon', 'label'), ('Lexicon', 'language'),
                       ('Lexicon', 'email'), ('Lexicon', 'license'), ('LexicalEntry', 'id'), ('Lemma', 'writtenForm'),
                       ('Lemma', 'partOfSpeech'), ('Form', 'writtenForm'), ('Tag', 'category'), ('Sense', 'id'),
                       ('Sense', 'synset'), ('SenseRelation', 'target'), ('SenseRelation', 'relType'),
                       ('Synset', 'id'), ('Synset', 'ili'), ('SynsetRelation', 'target'),
                       ('SynsetRelation', 'relType'), ('SyntacticBehaviour', 'subcategorizationFrame'),
                       ('Requires', 'id'), ('Requires', 'version'), ('Extends', 'id'), ('Extends', 'version'),
                       ('ExternalLexicalEntry', 'id'), ('ExternalSense', 'id'), ('ExternalSynset', 'id'),
                       ('ExternalForm', 'id')):
        m = re.search(r'<%s\b[^>]*?\s(%s="[^"]*")' % (elem, attr), text, flags=re.S)
        if m:
            yield f'missing-{elem}@{attr}', text[:m.start(1)] + text[m.end(1):]


def table_dump(dbpath):
    con = sqlite3.connect(dbpath)
    out = {}
    for (name,) in con.execute("SELECT name FROM sqlite_master WHERE type='table' ORDER BY name").fetchall():
        out[name] = con.execute(f'SELECT * FROM "{name}"').fetchall()
    con.close()
    return out


def _project(res):
    out = []
    for lex in res['lexicons']:
        ext = lex.get('extends')
        out.append({'id': lex['id'], 'version': lex['version'], 'label': lex.get('label'),
                    'extends': {'id': ext['id'], 'version': ext['version']} if ext else None})
    return out


def _job(version):
    import wn
    from wn import lmf
    work = tempfile.mkdtemp(prefix='wnflt')
    results = []          # (version, doc, kind, label, problem or None, known)
    old = wn.config.data_directory
    try:
        wn.config.data_directory = os.path.join(work, 'data')
        for doc, text in base_documents(version, work):
            for label, t in valid_variants(text):
                p = os.path.join(work, 'v.xml')
                open(p, 'w', encoding='utf-8').write(t)
                problem = None
                res = None
                try:
                    if not lmf.is_lmf(p):
                        problem = 'LOAD: is_lmf() is False for a valid document'
                    res = lmf.load(p, progress_handler=None)
                except Exception as exc:   # noqa: BLE001
                    problem = f'LOAD: valid document rejected by load(): {type(exc).__name__}: {exc}'
                if problem is None:
                    # the pre-scan on its own: only these problems can belong to known finding K6
                    try:
                        scan = lmf.scan_lexicons(p)
                        if scan != _project(res):
                            problem = f'SCAN: scan_lexicons {scan} != load {_project(res)}'
                    except Exception as exc:   # noqa: BLE001
                        problem = f'SCAN: scan_lexicons raises on a valid document: {type(exc).__name__}: {exc}'
                results.append((version, doc, 'valid', label, problem, t if problem else None))
            for label, t in faults(text, version):
                if t == text:
                    continue
                p = os.path.join(work, 'f.xml')
                open(p, 'w', encoding='utf-8').write(t)
                problem = None
                try:
                    lmf.load(p, progress_handler=None)
                    problem = 'load() accepted the invalid document'
                except Exception:   # noqa: BLE001
                    pass
                header_fault = label in ('no-xml-declaration', 'no-doctype', 'doctype-other-dtd',
                                         'xmldecl-other-encoding', 'blank-first-line', 'utf8-bom')
                if header_fault and lmf.is_lmf(p):
                    problem = (problem or '') + ' is_lmf() is True although load() rejects the header'
                if not header_fault and not lmf.is_lmf(p):
                    problem = (problem or '') + ' is_lmf() is False although the header is valid'
                # add() on an empty database: exception and no change
                dbdir = os.path.join(work, 'data')
                shutil.rmtree(dbdir, ignore_errors=True)
                os.makedirs(dbdir)
                wn.lexicons()        # creates the database
                before = table_dump(wn.config.database_path)
                try:
                    wn.add(p, progress_handler=None)
                    problem = (problem or '') + ' add() accepted the invalid document'
                except Exception:   # noqa: BLE001
                    pass
                if header_fault:
                    # the same file inside a package directory (resource + README): not a package, not a collection -
                    # add() of the directory raises as well instead of finding "nothing to add"
                    pkg = os.path.join(work, 'fpkg')
                    shutil.rmtree(pkg, ignore_errors=True)
                    os.makedirs(pkg)
                    shutil.copy(p, os.path.join(pkg, 'lex.xml'))
                    open(os.path.join(pkg, 'README.md'), 'w').write('readme\n')
                    try:
                        wn.add(pkg, progress_handler=None)
                        problem = (problem or '') + ' add(package directory) accepted the invalid document'
                    except Exception:   # noqa: BLE001
                        pass
                after = table_dump(wn.config.database_path)
                if before != after:
                    changed = [k for k in after if after[k] != before.get(k)]
                    problem = (problem or '') + f' add() changed the database (tables {changed})'
                results.append((version, doc, 'fault', label, problem, t if problem else None))
        # an extension alone in its file whose <Extends> lacks id / version: the pre-scan itself must refuse it, so that
        # add() raises (it would otherwise take the lexicon for "base not available" and return normally)
        if version != '1.0':
            ext_doc = os.path.join(work, 'extonly.xml')
            lmf.dump({'lmf_version': version, 'lexicons': [lmfgen.full_lexicon(version, extension=True)]}, ext_doc)
            etext = open(ext_doc, encoding='utf-8').read()
            for attr in ('id', 'version'):
                m = re.search(r'<Extends\b[^>]*?\s(%s="[^"]*")' % attr, etext, flags=re.S)
                if not m:
                    continue
                t = etext[:m.start(1)] + etext[m.end(1):]
                p = os.path.join(work, 'fe.xml')
                open(p, 'w', encoding='utf-8').write(t)
                problem = None
                try:
                    lmf.load(p, progress_handler=None)
                    problem = 'load() accepted the invalid document'
                except Exception:   # noqa: BLE001
                    pass
                dbdir = os.path.join(work, 'data')
                shutil.rmtree(dbdir, ignore_errors=True)
                os.makedirs(dbdir)
                wn.lexicons()
                try:
                    wn.add(p, progress_handler=None)
                    problem = (problem or '') + ' add() accepted the invalid document'
                except Exception:   # noqa: BLE001
                    pass
                results.append((version, 'ext-only', 'fault', f'missing-Extends@{attr}', problem, t if problem else None))
    finally:
        wn.config.data_directory = old
        shutil.rmtree(work, ignore_errors=True)
    return results


def big_file_case():
    """scan_lexicons == load on a document of a few MiB whose <Lexicon> start tags lie across the 4 KiB, 64 KiB and
    1 MiB offsets (padding is done with XML comments inside the preceding lexicon).  Returns a result row."""
    from wn import lmf
    work = tempfile.mkdtemp(prefix='wnbig')
    try:
        head = ('<?xml version="1.0" encoding="UTF-8"?>\n<!DOCTYPE LexicalResource SYSTEM '
                '"http://globalwordnet.github.io/schemas/WN-LMF-1.0.dtd">\n<LexicalResource '
                'xmlns:dc="http://purl.org/dc/elements/1.1/">\n')
        text = head
        close = '</Lexicon>\n'
        for k, boundary in enumerate((0, 4096, 65536, 1 << 20)):
            tag = (f'<Lexicon id="big{k}" label="lexicon number {k}" language="en" email="e@x" license="l" '
                   f'version="1.{k}">')
            if boundary:
                # pad (inside the previous lexicon) so that the start tag begins 20 bytes before the boundary
                pad = boundary - 20 - len(text.encode()) - len(close) - len('<!---->\n')
                text += '<!--' + 'x' * max(pad, 0) + '-->\n' + close
                assert len(text.encode()) == boundary - 20, (len(text.encode()), boundary)
            text += tag + f'\n<Synset id="big{k}-1" ili="" partOfSpeech="n"/>\n'
        text += close + '</LexicalResource>\n'
        path = os.path.join(work, 'big.xml')
        open(path, 'w', encoding='utf-8').write(text)
        problem = None
        try:
            res = lmf.load(path, progress_handler=None)
        except Exception as exc:   # noqa: BLE001
            return ('1.0', 'big', 'valid', 'big-file', f'HARNESS: generated document does not load: {exc}', None)
        try:
            scan = lmf.scan_lexicons(path)
            if scan != _project(res):
                problem = f'SCAN: scan_lexicons {[x["id"] for x in scan]} != load {[x["id"] for x in _project(res)]}'
        except Exception as exc:   # noqa: BLE001
            problem = f'SCAN: scan_lexicons raises on a valid document: {type(exc).__name__}: {exc}'
        return ('1.0', 'big', 'valid', 'big-file', problem, None)
    finally:
        shutil.rmtree(work, ignore_errors=True)


def sweep():
    out = [big_file_case()]
    with ProcessPoolExecutor(4) as ex:
        for r in ex.map(_job, VERSIONS):
            out += r
    return out
