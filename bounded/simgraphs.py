"""Bounded stand-ins for C14 (similarity) and C15 (information content) on the real functions over small digraphs."""
from __future__ import annotations

import itertools
import math

import wn
from wn import taxonomy, similarity
from wn import ic as wnic
from bounded.graphs import (build, FakeWordnet, ancestors_or_self, dist_up, maximal_simple_paths, has_long_cycle)

EPS = 1e-9


def close(a, b):
    if a == b:
        return True
    if isinstance(a, float) and isinstance(b, float) and (math.isinf(a) or math.isinf(b)):
        return a == b
    return abs(a - b) <= EPS * max(1.0, abs(a), abs(b))


def spec_distance(graph, a, b, sr):
    if a == b:
        return 0
    anc_a, anc_b = ancestors_or_self(graph, a), ancestors_or_self(graph, b)
    da, db = dist_up(graph, a), dist_up(graph, b)
    best = None
    for c in anc_a & anc_b:
        v = da[c] + db[c]
        best = v if best is None or v < best else best
    if sr:
        ra = min((len(p) for p in maximal_simple_paths(graph, a)), default=0) + 1
        rb = min((len(p) for p in maximal_simple_paths(graph, b)), default=0) + 1
        v = ra + rb
        best = v if best is None or v < best else best
    return best


def check_similarity(graph, pos=None):
    fails = []
    n = len(graph)
    nodes, w = build(graph, pos)
    long_cycle = has_long_cycle(graph)
    tdepth = max((len(p) for i in range(n) for p in maximal_simple_paths(graph, i)), default=0)
    for a in range(n):
        for b in range(n):
            for sr in (False, True):
                d = spec_distance(graph, a, b, sr)
                # path
                got = similarity.path(nodes[a], nodes[b], simulate_root=sr)
                want = 0.0 if d is None else 1 / (d + 1)
                if not close(float(got), want):
                    fails.append(('path:formula', {'graph': graph, 'a': a, 'b': b, 'simulate_root': sr, 'got': got,
                                                   'want': want}))
                if not (0 <= got <= 1) or ((got == 1) != (a == b)):
                    fails.append(('path:bounds', {'graph': graph, 'a': a, 'b': b, 'got': got}))
                if not close(float(got), float(similarity.path(nodes[b], nodes[a], simulate_root=sr))):
                    fails.append(('path:symmetric', {'graph': graph, 'a': a, 'b': b}))
                # wup: value of the formula for SOME lowest common hypernym; symmetric; in (0,1]; 1 for identical
                try:
                    wv = similarity.wup(nodes[a], nodes[b], simulate_root=sr)
                except wn.Error:
                    wv = None
                lcs = taxonomy.lowest_common_hypernyms(nodes[a], nodes[b], simulate_root=sr)
                if (wv is None) != (len(lcs) == 0):
                    fails.append(('wup:error-iff-no-common-hypernym', {'graph': graph, 'a': a, 'b': b,
                                                                       'simulate_root': sr}))
                if wv is not None:
                    cands = []
                    for c in lcs:
                        i = len(nodes[a].shortest_path(c, simulate_root=sr))
                        j = len(nodes[b].shortest_path(c, simulate_root=sr))
                        k = c.max_depth() + 1
                        cands.append((2 * k) / (i + j + 2 * k))
                    if not any(close(wv, c) for c in cands):
                        fails.append(('wup:formula', {'graph': graph, 'a': a, 'b': b, 'got': wv, 'candidates': cands}))
                    if not (0 < wv <= 1) or (a == b and not close(wv, 1.0)):
                        fails.append(('wup:bounds', {'graph': graph, 'a': a, 'b': b, 'got': wv}))
                    try:
                        wb = similarity.wup(nodes[b], nodes[a], simulate_root=sr)
                    except wn.Error:
                        wb = None
                    if wb is None or not close(wv, wb):
                        fails.append(('wup:symmetric', {'graph': graph, 'a': a, 'b': b, 'simulate_root': sr,
                                                        'ab': wv, 'ba': wb}))
                    if not long_cycle:
                        saa = similarity.wup(nodes[a], nodes[a], simulate_root=sr)
                        if wv > saa + EPS:
                            fails.append(('wup:self-maximal', {'graph': graph, 'a': a, 'b': b}))
                # lch
                if tdepth > 0:
                    try:
                        lv = similarity.lch(nodes[a], nodes[b], tdepth, simulate_root=sr)
                    except wn.Error:
                        lv = None
                    if (lv is None) != (d is None):
                        fails.append(('lch:error-iff-unconnected', {'graph': graph, 'a': a, 'b': b,
                                                                    'simulate_root': sr}))
                    if lv is not None and d is not None:
                        want = -math.log((d + 1) / (2 * tdepth))
                        if not close(lv, want):
                            fails.append(('lch:formula', {'graph': graph, 'a': a, 'b': b, 'got': lv, 'want': want}))
                        if lv > similarity.lch(nodes[a], nodes[a], tdepth, simulate_root=sr) + EPS:
                            fails.append(('lch:self-maximal', {'graph': graph, 'a': a, 'b': b}))
                try:
                    similarity.lch(nodes[a], nodes[b], 0, simulate_root=True)
                    fails.append(('lch:rejects-nonpositive-depth', {'graph': graph, 'a': a, 'b': b}))
                except wn.Error:
                    pass
    return fails


def check_pos_compat():
    fails = []
    graph = ((), ())
    for pa, pb in itertools.product('nvasr', repeat=2):
        nodes, w = build(graph, [pa, pb])
        compatible = ({pa, pb} <= {'a', 's'}) or pa == pb
        for fn in (similarity.path, similarity.wup):
            try:
                fn(nodes[0], nodes[1], simulate_root=True)
                raised = False
            except wn.Error:
                raised = True
            if raised == compatible:
                fails.append(('pos-compatibility', {'fn': fn.__name__, 'pos': (pa, pb), 'raised': raised}))
        try:
            similarity.lch(nodes[0], nodes[1], 3, simulate_root=True)
            raised = False
        except wn.Error:
            raised = True
        if raised == compatible:
            fails.append(('pos-compatibility', {'fn': 'lch', 'pos': (pa, pb), 'raised': raised}))
    return 25, fails


# ---- information content ------------------------------------------------------------------------------------------

def corpora(n):
    """Word inventories: word k denotes synset k; an ambiguous word 'amb' denotes synsets 0 and n-1; 'zzz' unknown."""
    words = {f'w{k}': [k] for k in range(n)}
    if n > 1:
        words['amb'] = [0, n - 1]
    base = list(words)
    yield words, []
    yield words, ['w0']
    yield words, ['w0', 'w0', 'zzz']
    if n > 1:
        yield words, ['amb', f'w{n - 1}']
        yield words, base + ['zzz']


def check_ic(graph, pos=None):
    fails = []
    n = len(graph)
    for words, corpus in corpora(n):
        for distribute in (True, False):
            for smoothing in (1.0, 0.0):
                nodes, w = build(graph, pos)
                w.words = words
                try:
                    freq = wnic.compute(corpus, w, distribute_weight=distribute, smoothing=smoothing)
                except Exception as exc:
                    fails.append(('compute:no-raise', {'graph': graph, 'corpus': corpus, 'error': repr(exc)}))
                    continue
                # specification
                total = smoothing
                weight = {i: smoothing for i in range(n)}
                from collections import Counter
                for word, cnt in Counter(corpus).items():
                    ss = words.get(word, [])
                    if not ss:
                        continue
                    wt = float(cnt / len(ss) if distribute else cnt)
                    for s in ss:
                        total += wt
                        for anc in ancestors_or_self(graph, s):
                            weight[anc] += wt
                ctx = {'graph': graph, 'corpus': corpus, 'distribute': distribute, 'smoothing': smoothing}
                if not close(freq['n'][None], total):
                    fails.append(('compute:total', {**ctx, 'got': freq['n'][None], 'want': total}))
                for i in range(n):
                    if not close(freq['n'][f'ss{i}'], weight[i]):
                        fails.append(('compute:once-per-ancestor', {**ctx, 'synset': i, 'got': freq['n'][f'ss{i}'],
                                                                    'want': weight[i]}))
                        break
                if smoothing > 0:
                    for i in range(n):
                        p = wnic.synset_probability(nodes[i], freq)
                        if not (0 < p <= 1 + EPS):
                            fails.append(('probability:in-(0,1]', {**ctx, 'synset': i, 'p': p}))
                            break
                        if wnic.information_content(nodes[i], freq) < -EPS:
                            fails.append(('information_content:non-negative', {**ctx, 'synset': i}))
                            break
                        for j in graph[i]:
                            if freq['n'][f'ss{j}'] + EPS < freq['n'][f'ss{i}']:
                                fails.append(('weights:monotone-up', {**ctx, 'hyponym': i, 'hypernym': j}))
                                break
    return fails
