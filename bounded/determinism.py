"""Bounded stand-in for C16: a battery of public calls on generated databases, run in subprocesses started with different
PYTHONHASHSEED values and twice within one process; the canonical transcripts must be byte-identical.
Never counted as proved.

Run as a script:  python -m bounded.determinism <workdir>   -> prints the transcript (one line per call)."""
from __future__ import annotations

import hashlib
import json
import os
import subprocess
import sys
import tempfile
import shutil


def taxonomy_lexicon():
    """Noun taxonomy with several lowest common hypernyms / equal-length paths, plus derived data for IC."""
    edges = {  # hyponym -> hypernyms
        'a': ['c1', 'x'], 'b': ['c1', 'c2'], 'x': ['c2'], 'c1': ['r'], 'c2': ['r'], 'd': ['a', 'b'], 'e': ['d', 'x'],
        'f': ['r2'], 'g': ['f', 'c1'], 'r': [], 'r2': [],
    }
    synsets, entries = [], []
    for k, (n, hyps) in enumerate(edges.items()):
        synsets.append({'id': f't-{n}', 'ili': f'i{k}', 'partOfSpeech': 'n', 'meta': None,
                        'definitions': [{'text': f'definition of {n}', 'meta': None}],
                        'relations': [{'target': f't-{h}', 'relType': 'hypernym', 'meta': None} for h in hyps] +
                                     [{'target': f't-{c}', 'relType': 'hyponym', 'meta': None}
                                      for c, hs in edges.items() if n in hs],
                        'examples': [{'text': f'example {n}', 'meta': None}]})
        entries.append({'id': f't-w{n}', 'meta': None, 'lemma': {'writtenForm': f'word{n}', 'partOfSpeech': 'n'},
                        'forms': [{'writtenForm': f'word{n}s'}],
                        'senses': [{'id': f't-s{n}', 'synset': f't-{n}', 'meta': None,
                                    'counts': [{'value': k + 1, 'meta': None}],
                                    'relations': [{'target': f't-s{m}', 'relType': 'derivation', 'meta': None}
                                                  for m in list(edges)[:k][-2:]]}],
                        'frames': [{'subcategorizationFrame': f'F{j}'} for j in range(4)]})
    return {'id': 't', 'label': 'taxonomy', 'language': 'en', 'email': 'e', 'license': 'l', 'version': '1', 'meta': None,
            'entries': entries, 'synsets': synsets}


def build(work):
    import wn
    from wn import lmf
    from bounded import lmfgen
    wn.config.data_directory = os.path.join(work, 'data')
    os.makedirs(wn.config.data_directory, exist_ok=True)
    src = os.path.join(work, 'src.xml')
    # 'u': two synsets linked only through the ILIs of the taxonomy lexicon (hypernymy visible with expand='t:1')
    u = {'id': 'u', 'label': 'u', 'language': 'en', 'email': 'e', 'license': 'l', 'version': '1', 'meta': None,
         'entries': [{'id': 'u-w1', 'meta': None, 'lemma': {'writtenForm': 'uword', 'partOfSpeech': 'n'},
                      'senses': [{'id': 'u-s1', 'synset': 'u-1', 'meta': None}]}],
         'synsets': [{'id': 'u-1', 'ili': 'i1', 'partOfSpeech': 'n', 'meta': None},
                     {'id': 'u-2', 'ili': 'i3', 'partOfSpeech': 'n', 'meta': None},
                     {'id': 'u-3', 'ili': 'i0', 'partOfSpeech': 'n', 'meta': None},
                     {'id': 'u-4', 'ili': 'i5', 'partOfSpeech': 'n', 'meta': None},
                     {'id': 'u-5', 'ili': 'i6', 'partOfSpeech': 'n', 'meta': None}]}
    # 'v': a single synset for the taxonomy's root concept: both of its borrowed hyponyms are placeholders
    v = {'id': 'v', 'label': 'v', 'language': 'en', 'email': 'e', 'license': 'l', 'version': '1', 'meta': None,
         'synsets': [{'id': 'v-1', 'ili': 'i9', 'partOfSpeech': 'n', 'meta': None}]}
    # 'w': a leaf (e, i6) and the root (r, i9) of the taxonomy: every hypernym chain between them runs through
    # several different inferred synsets
    w = {'id': 'w', 'label': 'w', 'language': 'en', 'email': 'e', 'license': 'l', 'version': '1', 'meta': None,
         'entries': [{'id': 'w-w1', 'meta': None, 'lemma': {'writtenForm': 'wword', 'partOfSpeech': 'n'},
                      'senses': [{'id': 'w-s1', 'synset': 'w-1', 'meta': None}]}],
         'synsets': [{'id': 'w-1', 'ili': 'i6', 'partOfSpeech': 'n', 'meta': None},
                     {'id': 'w-2', 'ili': 'i9', 'partOfSpeech': 'n', 'meta': None}]}
    lmf.dump({'lmf_version': '1.0', 'lexicons': [taxonomy_lexicon(), lmfgen.full_lexicon('1.0', meta=lmfgen.META_FULL),
                                                 u, v, w]}, src)
    wn.add(src, progress_handler=None)
    return src


def battery(work, src):
    import wn
    import wn.taxonomy
    import wn.similarity
    import wn.ic
    import wn.validate
    from wn import lmf
    out = []

    def rec(label, value):
        out.append(f'{label}\t{value!r}')
    w = wn.Wordnet('t:1')
    wall = wn.Wordnet()
    rec('lexicons', [(x.id, x.version) for x in wn.lexicons()])
    rec('words', [(x.id, x.pos, x.forms()) for x in wall.words()])
    rec('senses', [(s.id, s.frames(), [int(c) for c in s.counts()], s.examples()) for s in wall.senses()])
    rec('synsets', [(s.id, s.ili.id if s.ili else None, s.definition(), s.examples(), [m.id for m in s.senses()])
                    for s in wall.synsets()])
    rec('relations', [(s.id, {k: [t.id for t in v] for k, v in s.relations().items()}) for s in wall.synsets()])
    rec('sense-relations', [(s.id, {k: [t.id for t in v] for k, v in s.relations().items()}) for s in wall.senses()])
    rec('relation_map', [(s.id, [(r.name, r.target_id, t.id) for r, t in s.relation_map().items()])
                         for s in wall.synsets()])
    sss = w.synsets()
    rec('hypernym_paths', [(s.id, [[p.id for p in path] for path in s.hypernym_paths()]) for s in sss])
    rec('depths', [(s.id, s.min_depth(), s.max_depth()) for s in sss])
    rec('roots-leaves', ([s.id for s in wn.taxonomy.roots(w, pos='n')], [s.id for s in wn.taxonomy.leaves(w, pos='n')]))
    rec('taxonomy_depth', wn.taxonomy.taxonomy_depth(w, 'n'))
    freq = wn.ic.compute(['worda', 'wordb', 'wordd', 'worde', 'wordx', 'wordr'], w)
    rec('ic.compute', {pos: [(k, d[k]) for k in sorted(d, key=str)] for pos, d in freq.items()})
    for sr in (False, True):
        for a in sss:
            for b in sss:
                row = [a.id, b.id, sr]
                try:
                    row.append([s.id for s in a.lowest_common_hypernyms(b, simulate_root=sr)])
                    row.append([s.id for s in a.common_hypernyms(b, simulate_root=sr)])
                except wn.Error as exc:
                    row.append(f'Error {exc}')
                try:
                    row.append([s.id for s in a.shortest_path(b, simulate_root=sr)])
                except wn.Error as exc:
                    row.append('no path')
                for name in ('path', 'wup'):
                    try:
                        row.append(getattr(wn.similarity, name)(a, b, simulate_root=sr))
                    except wn.Error:
                        row.append('error')
                try:
                    row.append(wn.similarity.lch(a, b, 8, simulate_root=sr))
                except wn.Error:
                    row.append('error')
                rec('pair', row)
    # through an expand lexicon: hypernyms that exist only as inferred placeholders (told apart by their ILI)
    wx = wn.Wordnet('u:1', expand='t:1')

    def tag(s):
        return f'{s.id}@{s._ili}'
    for a in wx.synsets():
        rec('x-paths', [a.id, [[tag(p) for p in path] for path in a.hypernym_paths()]])
        for b in wx.synsets():
            row = [a.id, b.id]
            try:
                row.append([tag(s) for s in a.lowest_common_hypernyms(b)])
                row.append([tag(s) for s in a.common_hypernyms(b)])
                row.append([tag(s) for s in a.shortest_path(b)])
                row.append(wn.similarity.wup(a, b))
            except wn.Error as exc:
                row.append('Error')
            rec('x-pair', row)
    for a in sss:
        for b in sss:
            row = [a.id, b.id]
            for name in ('res', 'jcn', 'lin'):
                try:
                    row.append(getattr(wn.similarity, name)(a, b, freq))
                except (wn.Error, ZeroDivisionError, ValueError) as exc:
                    row.append(type(exc).__name__)
            rec('ic-pair', row)
    out += ic_configs()
    for lex in lmf.load(src, progress_handler=None)['lexicons']:
        rec('validate ' + lex['id'], json.dumps(wn.validate.validate(lex), sort_keys=False, default=str))
    for version in ('1.0', '1.1'):
        p = os.path.join(work, f'export-{version}-{os.getpid()}.xml')
        wn.export(wn.lexicons(), p, version=version)
        rec(f'export {version}', hashlib.sha256(open(p, 'rb').read()).hexdigest())
        os.unlink(p)
    p = os.path.join(work, f'dump-{os.getpid()}.xml')
    lmf.dump(lmf.load(src, progress_handler=None), p)
    rec('dump', hashlib.sha256(open(p, 'rb').read()).hexdigest())
    os.unlink(p)
    return out


IC_CONFIGS = [{'lexicon': 'u:1', 'expand': ''}, {'lexicon': 'u:1', 'expand': 't:1'}, {'lexicon': 't:1'},
              {'lexicon': 'l:1.0', 'expand': 't:1'}]


def ic_configs(only=None):
    """Information content of the same corpus under Wordnet objects that differ only in configuration."""
    import wn
    import wn.ic
    out = []
    for k, kw in enumerate(IC_CONFIGS):
        if only is not None and k != only:
            continue
        w = wn.Wordnet(**kw)
        freq = wn.ic.compute(['x', 'w2', 'forms', 'worda', 'wordb', 'uword', 'uword'], w)
        out.append(f'ic-config {k}\t' + repr({pos: [(key, d[key]) for key in sorted(d, key=str)]
                                               for pos, d in sorted(freq.items())}))
        out.append(f'hypernyms-config {k}\t' + repr([(s.id, [h.id for h in s.hypernyms()]) for s in w.synsets()]))
    return out


def interleave(work):
    """Read-only calls with other configurations between two runs of the battery."""
    import wn
    import wn.ic
    for kw in ({'lexicon': 'l:1.0'}, {'lexicon': 't:1', 'expand': ''}, {'lexicon': 'l:1.0', 'expand': 't:1'},
               {'lang': 'en'}):
        w = wn.Wordnet(**kw)
        w.synsets()
        w.words()
        try:
            wn.ic.compute(['worda', 'x'], w)
        except Exception:   # noqa: BLE001
            pass
        for s in w.synsets()[:4]:
            s.hypernym_paths()
            s.relations()


def main(work):
    import wn
    wn.config.data_directory = os.path.join(work, 'data')
    src = os.path.join(work, 'src.xml')
    first = battery(work, src)
    interleave(work)
    second = battery(work, src)
    print('\n'.join(first))
    print('=== second run in the same process ===')
    print('\n'.join(second))


def sweep(seeds, python=sys.executable):
    """-> (cases, problems)"""
    work = tempfile.mkdtemp(prefix='wndet')
    problems = []
    try:
        env = dict(os.environ, PYTHONPATH='/repo:' + os.path.dirname(os.path.dirname(os.path.abspath(__file__))))
        r = subprocess.run([python, '-c', 'import sys; from bounded import determinism as D; D.build(sys.argv[1])', work],
                           env=env, capture_output=True, text=True)
        if r.returncode:
            raise RuntimeError(f'building the database failed: {r.stderr[-1500:]}')
        procs = []
        for seed in seeds:
            e = dict(env, PYTHONHASHSEED=str(seed))
            procs.append((seed, subprocess.Popen([python, '-m', 'bounded.determinism', work], env=e,
                                                 stdout=subprocess.PIPE, stderr=subprocess.PIPE, text=True)))
        transcripts = {}
        for seed, p in procs:
            o, err = p.communicate()
            if p.returncode:
                raise RuntimeError(f'seed {seed}: the battery itself failed: {err[-1500:]}')
            transcripts[seed] = o
        ref_seed = None
        for seed, t in transcripts.items():
            a, _, b = t.partition('=== second run in the same process ===\n')
            if a.strip() != b.strip():
                la, lb = a.strip().split('\n'), b.strip().split('\n')
                d = [(x.split('\t')[0], x[:300], y[:300]) for x, y in zip(la, lb) if x != y][:2]
                problems.append(f'seed {seed}: the second run in the same process differs (a read-only call changed a '
                                f'later result): {d}')
            if ref_seed is None:
                ref_seed, ref = seed, a
            elif a != ref:
                la, lb = ref.split('\n'), a.split('\n')
                d = [(x[:400], y[:400]) for x, y in zip(la, lb) if x != y][:3]
                problems.append(f'PYTHONHASHSEED {ref_seed} vs {seed}: {len([1 for x, y in zip(la, lb) if x != y])} '
                                f'lines differ, e.g. {d}')
        # calls in isolation (fresh process, nothing called before) must give what they give inside the battery
        for k in range(len(IC_CONFIGS)):
            r = subprocess.run([python, '-m', 'bounded.determinism', work, str(k)], env=env, capture_output=True,
                               text=True)
            if r.returncode:
                raise RuntimeError(f'isolated call {k} failed: {r.stderr[-1500:]}')
            for line in r.stdout.strip().split('\n'):
                if transcripts and line not in ref.split('\n'):
                    inside = [x for x in ref.split('\n') if x.split('\t')[0] == line.split('\t')[0]]
                    problems.append(f'{line.split(chr(9))[0]}: result in a fresh process differs from the result after '
                                    f'other read-only calls: fresh {line[:500]} / in battery {inside[0][:500] if inside else None}')
        lines = len(ref.split('\n')) if transcripts else 0
        return len(transcripts) * lines, problems
    finally:
        shutil.rmtree(work, ignore_errors=True)


if __name__ == '__main__':
    if len(sys.argv) > 2:
        import wn
        wn.config.data_directory = os.path.join(sys.argv[1], 'data')
        print('\n'.join(ic_configs(int(sys.argv[2]))))
    else:
        main(sys.argv[1])
