"""Bounded stand-in for C05 (never counted as proved): chains of lexicon extensions on the real code - the recursive
extension queries and remove()."""
from __future__ import annotations

import os
import shutil
import sqlite3
import tempfile


def _lex(lid, extends=None, n=0):
    lex = {'id': lid, 'label': lid, 'language': 'en', 'email': 'e', 'license': 'l', 'version': '1', 'meta': None,
           'entries': [{'id': f'{lid}-e{n}', 'meta': None, 'lemma': {'writtenForm': f'w{lid}', 'partOfSpeech': 'n'},
                        'senses': [{'id': f'{lid}-s{n}', 'synset': f'{lid}-ss{n}', 'meta': None}]}],
           'synsets': [{'id': f'{lid}-ss{n}', 'ili': '', 'partOfSpeech': 'n', 'meta': None}]}
    if extends:
        lex['extends'] = {'id': extends, 'version': '1'}
    return lex


# extension graph: base <- x1 <- x2 <- x3 ; base <- y1 ; other (unrelated)
GRAPH = {'base': None, 'x1': 'base', 'x2': 'x1', 'x3': 'x2', 'y1': 'base', 'other': None}


def closure(lid, depth):
    out, frontier, d = [], [lid], 0
    while frontier and (depth < 0 or d < depth):
        nxt = [k for k, b in GRAPH.items() if b in frontier]
        out += nxt
        frontier = nxt
        d += 1
    return set(out)


def residue(dbpath, gone_rowids):
    con = sqlite3.connect(dbpath)
    bad = []
    for (name,) in con.execute("SELECT name FROM sqlite_master WHERE type='table'").fetchall():
        cols = [r[1] for r in con.execute(f'PRAGMA table_info("{name}")')]
        for c in cols:
            if c in ('lexicon_rowid', 'extension_rowid', 'base_rowid', 'dependent_rowid'):
                for rid in gone_rowids:
                    n = con.execute(f'SELECT count(*) FROM "{name}" WHERE "{c}" = ?', (rid,)).fetchone()[0]
                    if n:
                        bad.append(f'{name}.{c}={rid}: {n} rows')
    con.close()
    return bad


def sweep():
    import wn
    from wn import lmf
    problems, cases = [], 0
    work = tempfile.mkdtemp(prefix='wnext')
    old = wn.config.data_directory
    try:
        for victim in ('base', 'x1', 'x2', 'y1', 'x3'):
            d = os.path.join(work, 'db_' + victim)
            os.makedirs(d)
            wn.config.data_directory = d
            for k, lid in enumerate(GRAPH):
                wn.add_lexical_resource({'lmf_version': '1.1', 'lexicons': [_lex(lid, GRAPH[lid], k)]},
                                        progress_handler=None)
            lexs = {x.id: x for x in wn.lexicons()}
            if set(lexs) != set(GRAPH):
                problems.append(f'installed {sorted(lexs)} != {sorted(GRAPH)}')
                continue
            for lid in GRAPH:
                for depth in (1, 2, 3, -1):
                    cases += 1
                    got = {x.id for x in lexs[lid].extensions(depth=depth)}
                    if got != closure(lid, depth):
                        problems.append(f'{lid}.extensions(depth={depth}) = {sorted(got)}, expected '
                                        f'{sorted(closure(lid, depth))}')
                ext = lexs[lid].extends()
                if (ext.id if ext else None) != GRAPH[lid]:
                    problems.append(f'{lid}.extends() = {ext}, expected {GRAPH[lid]}')
            gone = {victim} | closure(victim, -1)
            rowids = [lexs[g]._id for g in gone]
            cases += 1
            try:
                wn.remove(f'{victim}:1', progress_handler=None)
            except Exception as exc:   # noqa: BLE001
                problems.append(f'remove({victim}) raised {type(exc).__name__}: {exc}')
                continue
            left = {x.id for x in wn.lexicons()}
            if left != set(GRAPH) - gone:
                problems.append(f'after remove({victim}): installed {sorted(left)}, expected {sorted(set(GRAPH) - gone)}')
            r = residue(wn.config.database_path, rowids)
            if r:
                problems.append(f'after remove({victim}): rows of removed lexicons remain: {r[:4]}')
    finally:
        wn.config.data_directory = old
        shutil.rmtree(work, ignore_errors=True)
    return cases, problems
