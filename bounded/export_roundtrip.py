"""Bounded stand-in for C03: add -> export -> load (and re-add) on generated lexicons, run on the real code.
Never counted as proved."""
from __future__ import annotations

import copy
import os
import shutil
import sqlite3
import tempfile
from concurrent.futures import ProcessPoolExecutor

from bounded import lmfgen
from bounded.lmf_roundtrip import diff

VERSIONS = ['1.0', '1.1', '1.2', '1.3']


def distinct_meta(lex):
    """Give every element that can carry metadata its own `note` (so that metadata attached to the wrong element
    shows), keep some elements without metadata."""
    n = [0]

    def visit(d, path):
        if isinstance(d, dict):
            if 'meta' in d:
                n[0] += 1
                d['meta'] = None if n[0] % 4 == 0 else {'note': f'note {n[0]} at {path}', 'source': f's{n[0]}'}
            for k, v in d.items():
                if k != 'meta':
                    visit(v, f'{path}/{k}')
        elif isinstance(d, list):
            for i, x in enumerate(d):
                visit(x, f'{path}[{i}]')
    visit(lex, '')
    return lex


def source_lexicons(src_version: str):
    """(label, [lexicons]) in src_version."""
    a = distinct_meta(lmfgen.full_lexicon(src_version))
    a['synsets'][0].pop('ili_definition')      # ILIDefinition of a synset with an existing ILI: known finding K16
    a['citation'] = 'Multi-line citation:\nsecond line\twith a tab, a "quote", <angle> & ampersand'
    if a.get('meta'):
        a['meta']['description'] = 'first line\nsecond line'
    # counts: first sense without counts so that count rowids differ from sense rowids
    a['entries'][0]['senses'].insert(0, {'id': 'l-s0', 'synset': 'l-ss3', 'meta': None})
    a['entries'][0]['senses'][1]['counts'] = [{'value': 3, 'meta': {'note': 'count A'}},
                                             {'value': 5, 'meta': None},
                                             {'value': 7, 'meta': {'note': 'count C'}}]
    a['entries'][1]['senses'] = [{'id': 'l-s9', 'synset': 'l-ss2', 'meta': None,
                                  'counts': [{'value': 1, 'meta': {'source': 'count D'}}]}]
    if src_version != '1.0':
        a['synsets'][0]['members'] = ['l-s1']
        a['synsets'][1]['members'] = ['l-s2', 'l-s9']
        a['synsets'][2]['members'] = ['l-s0']
    yield 'full', [a]
    b = copy.deepcopy(a)
    other = lmfgen.minimal_lexicon('m2')
    other['entries'] = [{'id': 'm2-e1', 'meta': None, 'lemma': {'writtenForm': 'w', 'partOfSpeech': 'n'},
                         'senses': [{'id': 'm2-s1', 'synset': 'm2-ss1', 'meta': None}]}]
    other['synsets'] = [{'id': 'm2-ss1', 'ili': 'i1', 'partOfSpeech': 'n', 'meta': None}]
    if src_version == '1.0':
        other['entries'][0]['frames'] = [{'subcategorizationFrame': 'M frame'}]      # id-less, like those of `a`
    else:
        other['frames'] = [{'subcategorizationFrame': 'M frame without id'}]
        other['entries'][0]['senses'][0]['subcat'] = []
        other['entries'][0]['senses'][0].pop('subcat')
    yield 'two', [b, other]
    yield 'minimal', [lmfgen.minimal_lexicon('m')]


def normal(lex, version):
    """What must come back: the source lexicon restricted to `version`, modulo representation choices that carry no
    information (see lmfgen._normalise) and the form of frames (entry level in 1.0 / lexicon level + subcat later:
    compared as the set of (frame, sense) links)."""
    p = lmfgen.project({'lmf_version': version, 'lexicons': [copy.deepcopy(lex)]}, version)['lexicons'][0]
    return p


def frame_links(lex):
    """{(frame text, sense id)} however the document encodes it."""
    links = set()
    byid = {}
    for fr in lex.get('frames', []):
        if fr.get('id'):
            byid[fr['id']] = fr['subcategorizationFrame']
        for sid in fr.get('senses', []):
            links.add((fr['subcategorizationFrame'], sid))
    for e in lex.get('entries', []):
        sids = [s['id'] for s in e.get('senses', [])]
        for fr in e.get('frames', []):
            for sid in (fr.get('senses') or sids):
                links.add((fr['subcategorizationFrame'], sid))
        for s in e.get('senses', []):
            for fid in s.get('subcat', []):
                links.add((byid.get(fid, '?' + fid), s['id']))
    return links


def strip_frames(lex):
    lex = copy.deepcopy(lex)
    lex.pop('frames', None)
    for e in lex.get('entries', []):
        e.pop('frames', None)
        for s in e.get('senses', []):
            s.pop('subcat', None)
    return lex


def strip_members(lex):
    for ss in lex.get('synsets', []):
        ss.pop('members', None)
    return lex


def table_dump(dbpath):
    con = sqlite3.connect(dbpath)
    out = {}
    for (name,) in con.execute("SELECT name FROM sqlite_master WHERE type='table' ORDER BY name").fetchall():
        out[name] = con.execute(f'SELECT * FROM "{name}"').fetchall()
    con.close()
    return out


def observe(wn):
    """Observable content through the public API."""
    out = {}
    for lex in wn.lexicons():
        w = wn.Wordnet(lexicon=f'{lex.id}:{lex.version}', expand='')
        o = {'lexicon': (lex.id, lex.version, lex.label, lex.language, lex.email, lex.license, lex.url, lex.citation,
                         lex.logo, lex.metadata()), 'requires': sorted(lex.requires())}
        o['words'] = [(x.id, x.pos, [(str(f), f.id, f.script,
                                      [(p.value, p.variety, p.notation, p.phonemic, p.audio) for p in f.pronunciations()],
                                      [(t.tag, t.category) for t in f.tags()]) for f in x.forms()],
                       x.metadata()) for x in w.words()]
        o['senses'] = [(s.id, s.word().id, s.synset().id, s.lexicalized(), s.adjposition(), sorted(s.frames()),
                        [(int(c), c.metadata()) for c in s.counts()], s.examples(),
                        [(r.name, r.target_id, r.metadata(), t.id) for r, t in s.relation_map().items()],
                        [(k, [t.id for t in v]) for k, v in sorted(
                            {n: s.get_related_synsets(n) for n in ('domain_topic',)}.items())],
                        s.metadata()) for s in w.senses()]
        o['synsets'] = [(x.id, x.pos, x.ili.id if x.ili else None, x.ili.status if x.ili else None,
                         x.ili.definition() if x.ili else None, x.ili.metadata() if x.ili else None,
                         x.lexicalized(), x.lexfile(), x.definition(), x.examples(),
                         [m.id for m in x.senses()],
                         [(r.name, r.target_id, r.metadata(), t.id) for r, t in x.relation_map().items()],
                         x.metadata()) for x in w.synsets()]
        out[f'{lex.id}:{lex.version}'] = o
    return out


def without_sense_frames(obs):
    return {spec: dict(o, senses=[x[:5] + x[6:] for x in o['senses']]) for spec, o in obs.items()}


def core_1_0(obs):
    """The part of observe() that every LMF version can express."""
    out = {}
    for spec, o in obs.items():
        lx = o['lexicon']
        out[spec] = {
            'lexicon': lx[:8] + (lx[9],),                       # without the logo
            'words': [(wid, pos, [(f, script, tags) for f, _fid, script, _prons, tags in forms], meta)
                      for wid, pos, forms, meta in o['words']],
            'senses': o['senses'],
            'synsets': [x[:7] + x[8:] for x in o['synsets']],   # without the lexfile
        }
    return out


def _job(args):
    src_version, exp_version = args
    import wn
    from wn import lmf
    work = tempfile.mkdtemp(prefix='wnexp')
    old = wn.config.data_directory
    results = []
    try:
        for k, (label, lexicons) in enumerate(source_lexicons(src_version)):
            problems = []
            try:
                for d in (f'd1_{k}', f'd2_{k}'):
                    os.makedirs(os.path.join(work, d))
                wn.config.data_directory = os.path.join(work, f'd1_{k}')
                # the source goes in through the in-memory route, so that the expectation does not depend on
                # lmf.dump (which is also what export writes with)
                original = {'lmf_version': src_version, 'lexicons': copy.deepcopy(lexicons)}
                wn.add_lexical_resource({'lmf_version': src_version, 'lexicons': copy.deepcopy(lexicons)},
                                        progress_handler=None)
                exp = os.path.join(work, 'exp.xml')
                wn.export(wn.lexicons(), exp, version=exp_version)
                back = lmf.load(exp, progress_handler=None)
                obs1 = observe(wn)
                if len(back['lexicons']) != len(original['lexicons']):
                    problems.append(f"{len(back['lexicons'])} lexicons exported, {len(original['lexicons'])} added")
                for lo, lb in zip(original['lexicons'], back['lexicons']):
                    want = normal(lo, exp_version)
                    got = normal(lb, exp_version)
                    fw, fg = frame_links(lo), frame_links(lb)
                    if fw != fg:
                        problems.append(f'sense-frame links: exported {sorted(fg)} != added {sorted(fw)}')
                    want, got = strip_frames(want), strip_frames(got)
                    for sw, sg in zip(want.get('synsets', []), got.get('synsets', [])):
                        if 'members' not in sw:
                            sg.pop('members', None)     # derived by the exporter when the source has none
                    d = diff(got, want)
                    if d:
                        problems.append('load(export(db)) != added lexicon: ' + '; '.join(d))
                # re-import into an empty database: observationally identical
                wn.config.data_directory = os.path.join(work, f'd2_{k}')
                wn.add(exp, progress_handler=None)
                obs2 = observe(wn)
                if src_version != '1.0' and exp_version == '1.0':
                    # what WN-LMF 1.0 cannot express is legitimately gone (pronunciations, form ids, lexfile, logo,
                    # requires, ids of syntactic behaviours); everything else must come back
                    c1, c2 = core_1_0(obs1), core_1_0(obs2)
                    if c1 != c2:
                        problems.append('database after re-adding the 1.0 export differs in what 1.0 can express: '
                                        + '; '.join(diff(c2, c1)))
                elif obs1 != obs2:
                    dd = diff(obs2, obs1)
                    # known finding K17 explains a difference only if it is confined to the frames of the senses
                    only_frames = without_sense_frames(obs1) == without_sense_frames(obs2)
                    problems.append(('K17-only: ' if only_frames else '') +
                                    'database after re-adding the export differs: ' + '; '.join(dd))
            except Exception as exc:   # noqa: BLE001
                import traceback
                problems.append(f'{type(exc).__name__}: {exc} ' + traceback.format_exc()[-600:])
            results.append((src_version, exp_version, label, problems))
    finally:
        wn.config.data_directory = old
        shutil.rmtree(work, ignore_errors=True)
    return results


def sweep():
    jobs = [(s, e) for s in VERSIONS for e in VERSIONS]
    out = []
    with ProcessPoolExecutor(8) as ex:
        for r in ex.map(_job, jobs):
            out += r
    return out


def probes():
    """(finding id, problems) for inputs behind recorded findings."""
    import wn
    from wn import lmf
    out = []
    work = tempfile.mkdtemp(prefix='wnexp')
    old = wn.config.data_directory
    try:
        def rt(resource, name, exp_version='1.1'):
            wn.config.data_directory = os.path.join(work, name)
            os.makedirs(wn.config.data_directory, exist_ok=True)
            src = os.path.join(work, name + '.xml')
            lmf.dump(resource, src)
            original = lmf.load(src, progress_handler=None)
            wn.add(src, progress_handler=None)
            exp = os.path.join(work, name + '-exp.xml')
            wn.export(wn.lexicons(), exp, version=exp_version)
            return original, lmf.load(exp, progress_handler=None)
        base = {'id': 'l', 'label': 'L', 'language': 'en', 'email': 'e', 'license': 'x', 'version': '1', 'meta': None}
        # K16: ILIDefinition of a synset whose ILI exists
        res = {'lmf_version': '1.1', 'lexicons': [dict(base, synsets=[
            {'id': 'l-c', 'ili': 'i7', 'partOfSpeech': 'n', 'meta': None,
             'ili_definition': {'text': 'definition of an existing ili', 'meta': None}}])]}
        o, b = rt(res, 'k16')
        d = diff(b['lexicons'][0]['synsets'], o['lexicons'][0]['synsets'])
        out.append(('K16', d))
        # K18: a syntactic behaviour no sense refers to
        res = {'lmf_version': '1.1', 'lexicons': [dict(base, frames=[
            {'id': 'l-f1', 'subcategorizationFrame': 'unused frame'}])]}
        o, b = rt(res, 'k18')
        d = diff(b['lexicons'][0].get('frames', []), o['lexicons'][0].get('frames', []))
        out.append(('K18', d))
        # K9: a relation declared twice (same type, target and metadata) is stored twice and exported once
        rel = {'relType': 'hypernym', 'target': 'l-b', 'meta': None}
        res = {'lmf_version': '1.1', 'lexicons': [dict(base, synsets=[
            {'id': 'l-a', 'ili': '', 'partOfSpeech': 'n', 'meta': None, 'relations': [dict(rel), dict(rel)]},
            {'id': 'l-b', 'ili': '', 'partOfSpeech': 'n', 'meta': None}])]}
        o, b = rt(res, 'k9')
        d = diff(b['lexicons'][0]['synsets'], o['lexicons'][0]['synsets'])
        out.append(('K9', d))
        # K24: text kept verbatim under xml:space="preserve"
        res = {'lmf_version': '1.3', 'lexicons': [dict(base, synsets=[
            {'id': 'l-a', 'ili': '', 'partOfSpeech': 'n', 'meta': None,
             'definitions': [{'text': 'PLACEHOLDER', 'meta': None}]}])]}
        wn.config.data_directory = os.path.join(work, 'k24')
        os.makedirs(wn.config.data_directory, exist_ok=True)
        src = os.path.join(work, 'k24.xml')
        lmf.dump(res, src)
        text = open(src, encoding='utf-8').read().replace('>PLACEHOLDER<', ' xml:space="preserve">line one\n   line two<')
        open(src, 'w', encoding='utf-8').write(text)
        original = lmf.load(src, progress_handler=None)
        wn.add(src, progress_handler=None)
        exp = os.path.join(work, 'k24-exp.xml')
        wn.export(wn.lexicons(), exp, version='1.3')
        back = lmf.load(exp, progress_handler=None)
        a = [x['text'] for x in original['lexicons'][0]['synsets'][0]['definitions']]
        c = [x['text'] for x in back['lexicons'][0]['synsets'][0]['definitions']]
        out.append(('K24', [f'definition {a} exported and re-read as {c}'] if a != c else []))
    finally:
        wn.config.data_directory = old
        shutil.rmtree(work, ignore_errors=True)
    return out
