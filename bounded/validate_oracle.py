"""Random differential for wn.validate: small broken lexicons against an oracle written from the documented condition
of each of the 18 checks (docstring table of wn/validate.py), independent of the implementation.  Lexicons whose ids
are not unique are compared on E101 only (several checks key their tables by id; their reading under duplicate ids is
not documented).  Adapted from the audit script of the second spec audit."""
from __future__ import annotations

import collections
import random

from wn.constants import REVERSE_RELATIONS, SENSE_RELATIONS, SENSE_SYNSET_RELATIONS, SYNSET_RELATIONS

SS_IDS = ['s1', 's2', 's3', 'e1', 'x1']
E_IDS = ['e1', 'e2', 's1']
SN_IDS = ['n1', 'n2', 'n3', 's1', 'e1']
RELS = ['hypernym', 'hyponym', 'similar', 'antonym', 'also', 'other', 'derivation', 'domain_topic', 'bogus']


def gen(rnd: random.Random):
    nss, ne = rnd.randint(0, 3), rnd.randint(0, 3)
    synsets, entries = [], []

    def rels():
        return [{'target': rnd.choice(SS_IDS + SN_IDS + ['zz']), 'relType': rnd.choice(RELS),
                 'meta': rnd.choice([None, {'type': 't'}])} for _ in range(rnd.randint(1, 3))]
    for _ in range(nss):
        d = {'id': rnd.choice(SS_IDS), 'ili': rnd.choice(['', 'in', 'i1', 'i2']), 'meta': None}
        if rnd.random() < .8:
            d['partOfSpeech'] = rnd.choice(['n', 'v'])
        if rnd.random() < .3:
            d['ili_definition'] = {'text': 'some def', 'meta': None}
        if rnd.random() < .5:
            d['definitions'] = [{'text': rnd.choice(['', ' ', 'd1', 'd2']), 'meta': None}
                                for _ in range(rnd.randint(1, 2))]
        if rnd.random() < .3:
            d['examples'] = [{'text': rnd.choice(['', 'ex']), 'meta': None}]
        if rnd.random() < .7:
            d['relations'] = rels()
        synsets.append(d)
    for _ in range(ne):
        e = {'id': rnd.choice(E_IDS), 'meta': None,
             'lemma': {'writtenForm': rnd.choice(['a', 'b']), 'partOfSpeech': rnd.choice(['n', 'v'])}}
        if rnd.random() < .3:
            e['forms'] = [{'writtenForm': 'f', **({'id': rnd.choice(['f1', 'e1', 's1'])} if rnd.random() < .7 else {})}
                          for _ in range(rnd.randint(1, 2))]
        if rnd.random() < .85:
            e['senses'] = []
            for _ in range(rnd.randint(0, 3)):
                s = {'id': rnd.choice(SN_IDS), 'synset': rnd.choice(SS_IDS + ['zz']), 'meta': None}
                if rnd.random() < .5:
                    s['relations'] = rels()
                e['senses'].append(s)
        if rnd.random() < .2:
            e['frames'] = [{'subcategorizationFrame': 'x',
                            **({'id': rnd.choice(['fr1', 'e1'])} if rnd.random() < .7 else {})}]
        entries.append(e)
    lex = {'id': rnd.choice(['lx', 'e1']), 'label': 'L', 'language': 'en', 'email': 'e', 'license': 'l',
           'version': '1', 'meta': None}
    if entries or rnd.random() < .5:
        lex['entries'] = entries
    if synsets or rnd.random() < .5:
        lex['synsets'] = synsets
    if rnd.random() < .2:
        lex['frames'] = [{'subcategorizationFrame': 'y',
                          **({'id': rnd.choice(['fr1', 's1'])} if rnd.random() < .7 else {})}]
    return lex


def oracle(lex):
    E, S = lex.get('entries', []), lex.get('synsets', [])
    senses = [(e, s) for e in E for s in e.get('senses', [])]
    ssids, snids = [x['id'] for x in S], [s['id'] for _, s in senses]
    out = {}
    allids = [lex['id']] + [f['id'] for e in E for f in e.get('forms', []) if f.get('id')] + \
        [f['id'] for f in lex.get('frames', []) if f.get('id')] + \
        [f['id'] for e in E for f in e.get('frames', []) if f.get('id')] + [e['id'] for e in E] + snids + ssids
    out['E101'] = {k for k, n in collections.Counter(allids).items() if n > 1}
    out['W201'] = {e['id'] for e in E if not e.get('senses')}
    out['W202'] = {s['id'] for e in E for s in e.get('senses', [])
                   if sum(1 for t in e.get('senses', []) if t['synset'] == s['synset']) > 1}
    out['W203'] = {e1['lemma']['writtenForm'] for i, e1 in enumerate(E) for j, e2 in enumerate(E)
                   if i != j and e1['lemma']['writtenForm'] == e2['lemma']['writtenForm']
                   and {s['synset'] for s in e1.get('senses', [])} & {s['synset'] for s in e2.get('senses', [])}}
    out['E204'] = {s['id'] for _, s in senses if s['synset'] not in ssids}
    out['W301'] = {x['id'] for x in S if x['id'] not in [s['synset'] for _, s in senses]}
    ilis = [x['ili'] for x in S if x['ili'] and x['ili'] != 'in']
    out['W302'] = {x['id'] for x in S if x['ili'] and x['ili'] != 'in' and ilis.count(x['ili']) > 1}
    out['W303'] = {x['id'] for x in S if x['ili'] == 'in' and not x.get('ili_definition')}
    out['W304'] = {x['id'] for x in S if x['ili'] and x['ili'] != 'in' and x.get('ili_definition')}
    out['W305'] = {x['id'] for x in S if any(d['text'].strip() == '' for d in x.get('definitions', []))}
    out['W306'] = {x['id'] for x in S if any(d['text'].strip() == '' for d in x.get('examples', []))}
    texts = [d['text'] for x in S for d in x.get('definitions', [])]
    out['W307'] = {x['id'] for x in S if any(texts.count(d['text']) > 1 for d in x.get('definitions', []))}
    srel = [(s, r) for _, s in senses for r in s.get('relations', [])]
    ssrel = [(x, r) for x in S for r in x.get('relations', [])]
    out['E401'] = {s['id'] for s, r in srel if r['target'] not in snids and r['target'] not in ssids} | \
        {x['id'] for x, r in ssrel if r['target'] not in ssids}
    out['W402'] = {s['id'] for s, r in srel if (r['target'] in snids and r['relType'] not in SENSE_RELATIONS)
                   or (r['target'] in ssids and r['relType'] not in SENSE_SYNSET_RELATIONS)} | \
        {x['id'] for x, r in ssrel if r['relType'] not in SYNSET_RELATIONS}
    w403 = set()
    for x in [s for _, s in senses] + list(S):
        rs = [(r['relType'], r['target'], (r.get('meta') or {}).get('type')) for r in x.get('relations', [])]
        if len(rs) != len(set(rs)):
            w403.add(x['id'])
    out['W403'] = w403
    w404 = set()
    for rel, ids in ((srel, snids), (ssrel, ssids)):
        for s, r in rel:
            if r['relType'] in REVERSE_RELATIONS and r['target'] in ids:
                rev = REVERSE_RELATIONS[r['relType']]
                if not any(t['id'] == r['target'] and q['relType'] == rev and q['target'] == s['id'] for t, q in rel):
                    w404.add(r['target'])
    out['W404'] = w404
    out['W501'] = {x['id'] for x, r in ssrel if r['relType'] == 'hypernym'
                   and any(t['id'] == r['target'] and t.get('partOfSpeech') != x.get('partOfSpeech') for t in S)}
    out['W502'] = {s['id'] for s, r in srel if r['target'] == s['id']} | {x['id'] for x, r in ssrel if r['target'] == x['id']}
    return out


def sweep(count: int, seed: int = 0):
    """Returns (cases, problems)."""
    from wn import validate as V
    rnd = random.Random(7919 * seed + 13)
    problems, cases = [], 0
    for _ in range(count):
        lex = gen(rnd)
        cases += 1
        try:
            rep = V.validate(lex, progress_handler=None)
        except Exception as exc:   # noqa: BLE001
            problems.append({'lexicon': lex, 'raised': f'{type(exc).__name__}: {exc}'})
            continue
        want = oracle(lex)
        ids = [x['id'] for x in lex.get('synsets', [])] + [s['id'] for e in lex.get('entries', [])
                                                           for s in e.get('senses', [])] + \
            [e['id'] for e in lex.get('entries', [])]
        unique = len(set(ids)) == len(ids)
        for code in V._codes:
            if not unique and code != 'E101':
                continue
            got = set(rep[code]['items'])
            if got != want[code]:
                problems.append({'code': code, 'lexicon': lex, 'reported': sorted(got), 'documented': sorted(want[code])})
        if len(problems) >= 20:
            break
    return cases, problems
