"""Bounded stand-in shared by C11/C13/C14/C15: the REAL wn._core / wn.taxonomy / wn.similarity / wn.ic functions
executed on every labelled digraph with <= N nodes (self-loops and cycles included).  The only thing replaced is
Synset.get_related (= the callee's contract: the adjacency of the hypernym graph, whose SQL side is C11) and the
Wordnet's synsets() inventory.  Everything returned is compared with brute-force graph-theoretic definitions.
"""
from __future__ import annotations

import itertools
import math
import multiprocessing
import os
from typing import Optional

import wn
from wn import _core, taxonomy, similarity, ic as wnic


class FakeWordnet:
    _default_mode = False
    _expanded_ids = ()
    _lexicon_ids = (1,)

    def __init__(self, graph, pos):
        self.graph = graph
        self.pos = pos
        self.nodes = None

    def synsets(self, form=None, pos=None, ili=None):
        if form is not None:
            return [self.nodes[i] for i in self.words.get(form, [])]
        return [n for n in self.nodes if pos is None or n.pos == pos]

    def lexicons(self):
        return []


class Node(_core.Synset):
    __slots__ = ('_adj', '_nodes', '_hypo')

    def _fresh(self, j):
        # like the real accessors, hand out a NEW object for the related synset on every call (same rowid, so equal
        # and hashing alike, but not identical: code that compares with `is` must not work here either)
        o = self._nodes[j]
        c = Node(o.id, o.pos, ili=o._ili, _lexid=o._lexid, _id=o._id, _wordnet=o._wordnet)
        c._adj, c._nodes, c._hypo = o._adj, o._nodes, o._hypo
        return c

    def get_related(self, *args):
        # the graph's adjacency for hypernym/instance_hypernym, its inverse for hyponym/instance_hyponym
        if set(args) & {'hypernym', 'instance_hypernym'}:
            return [self._fresh(j) for j in self._adj]
        if set(args) & {'hyponym', 'instance_hyponym'}:
            return [self._fresh(j) for j in self._hypo]
        return [self._fresh(j) for j in self._adj]


def build(graph, pos=None, wordnet=None):
    """graph: tuple of adjacency tuples (i -> hypernyms of i)."""
    n = len(graph)
    w = wordnet or FakeWordnet(graph, pos)
    nodes = []
    for i in range(n):
        p = (pos[i] if pos else 'n')
        s = Node(f'ss{i}', p, ili=None, _lexid=1, _id=i + 1, _wordnet=w)
        nodes.append(s)
    for i, s in enumerate(nodes):
        s._adj = tuple(graph[i])
        s._nodes = nodes
        s._hypo = tuple(j for j in range(n) if i in graph[j])
    w.nodes = nodes
    return nodes, w


def all_graphs(n):
    """Every labelled digraph on n nodes: each node's hypernym list is a subset of all nodes (incl. itself), in
    increasing order."""
    subsets = [tuple(s) for r in range(n + 1) for s in itertools.combinations(range(n), r)]
    return itertools.product(subsets, repeat=n)


# ---- brute-force definitions -------------------------------------------------------------------------------------

def maximal_simple_paths(graph, start):
    """All maximal simple chains start -> ... following edges, not counting `start` itself, skipping self-loops
    at the start (the enumerator's documented behaviour: a path never revisits a node)."""
    out = []

    def ext(path, visited):
        nxt = [j for j in graph[path[-1]] if j not in visited]
        if not nxt:
            out.append(path[1:])
            return
        for j in nxt:
            ext(path + [j], visited | {j})
    first = [j for j in graph[start] if j != start]
    for j in first:
        ext([start, j], {start, j})
    return out


def ancestors_or_self(graph, x):
    seen = {x}
    stack = [x]
    while stack:
        i = stack.pop()
        for j in graph[i]:
            if j not in seen:
                seen.add(j)
                stack.append(j)
    return seen


def dist_up(graph, x):
    """Shortest distance from x to each ancestor following edges."""
    d = {x: 0}
    frontier = [x]
    while frontier:
        nf = []
        for i in frontier:
            for j in graph[i]:
                if j not in d:
                    d[j] = d[i] + 1
                    nf.append(j)
        frontier = nf
    return d


def reachable(graph, x, rel='adj'):
    seen = set()
    stack = list(graph[x])
    while stack:
        i = stack.pop()
        if i not in seen:
            seen.add(i)
            stack.extend(graph[i])
    return seen


def has_long_cycle(graph):
    """A cycle of length >= 2."""
    n = len(graph)
    for s in range(n):
        stack = [(j, 1) for j in graph[s] if j != s]
        seen = set()
        while stack:
            i, d = stack.pop()
            if i == s:
                return True
            if i in seen:
                continue
            seen.add(i)
            stack.extend((j, d + 1) for j in graph[i] if j != i)
    return False


# ---- per-graph checks: return list of (clause, detail) failures --------------------------------------------------

def check_paths_and_closure(graph):
    """C11: relation_paths = exactly the maximal simple paths (as a multiset, order aside), closure = exactly the
    reachable set, each once; both terminate (they did, if we get here)."""
    fails = []
    nodes, _ = build(graph)
    n = len(graph)
    for i in range(n):
        got = [tuple(s._id - 1 for s in p) for p in nodes[i].relation_paths('hypernym', 'instance_hypernym')]
        want = [tuple(p) for p in maximal_simple_paths(graph, i)]
        if sorted(got) != sorted(want):
            fails.append(('relation_paths:maximal-simple', {'graph': graph, 'start': i, 'got': got, 'want': want}))
        for p in got:
            if len(set(p)) != len(p) or i in p:
                fails.append(('relation_paths:simple', {'graph': graph, 'start': i, 'path': p}))
        for end in range(n):
            gote = [tuple(s._id - 1 for s in p) for p in nodes[i].relation_paths('hypernym', end=nodes[end])]
            for p in gote:
                if not p or p[-1] != end or len(set(p)) != len(p):
                    fails.append(('relation_paths:end', {'graph': graph, 'start': i, 'end': end, 'path': p}))
        clo = [s._id - 1 for s in nodes[i].closure('hypernym')]
        if sorted(clo) != sorted(reachable(graph, i)) or len(clo) != len(set(clo)):
            fails.append(('closure:reachable-once', {'graph': graph, 'start': i, 'got': clo,
                                                      'want': sorted(reachable(graph, i))}))
    return fails


def check_taxonomy(graph, known_cycle_restriction=True):
    """C13 on one graph, all ordered pairs, simulate_root in {False, True}."""
    fails = []
    nodes, w = build(graph)
    n = len(graph)
    long_cycle = has_long_cycle(graph)
    for i in range(n):
        for sr in (False, True):
            hp = [tuple(s.id for s in p) for p in taxonomy.hypernym_paths(nodes[i], simulate_root=sr)]
            want = [tuple(f'ss{j}' for j in p) for p in maximal_simple_paths(graph, i)]
            if sr:
                want = [p + ('*ROOT*',) for p in want] or [('*ROOT*',)]
            if sorted(hp) != sorted(want):
                fails.append(('hypernym_paths', {'graph': graph, 'x': i, 'simulate_root': sr, 'got': hp, 'want': want}))
            lens = [len(p) for p in want]
            if taxonomy.min_depth(nodes[i], sr) != (min(lens) if lens else 0) or \
                    taxonomy.max_depth(nodes[i], sr) != (max(lens) if lens else 0):
                fails.append(('min/max_depth', {'graph': graph, 'x': i, 'simulate_root': sr}))
    roots = sorted(s._id - 1 for s in taxonomy.roots(w))
    leaves = sorted(s._id - 1 for s in taxonomy.leaves(w))
    if roots != [i for i in range(n) if not graph[i]]:
        fails.append(('roots', {'graph': graph, 'got': roots}))
    if leaves != [i for i in range(n) if not any(i in graph[j] for j in range(n))]:
        fails.append(('leaves', {'graph': graph, 'got': leaves}))
    # pairs
    for a in range(n):
        for b in range(n):
            for sr in (False, True):
                anc_a, anc_b = ancestors_or_self(graph, a), ancestors_or_self(graph, b)
                common = {f'ss{j}' for j in anc_a & anc_b} | ({'*ROOT*'} if sr else set())
                ch = [s.id for s in taxonomy.common_hypernyms(nodes[a], nodes[b], simulate_root=sr)]
                if sorted(ch) != sorted(common) or len(ch) != len(set(ch)):
                    fails.append(('common_hypernyms', {'graph': graph, 'a': a, 'b': b, 'simulate_root': sr,
                                                       'got': ch, 'want': sorted(common)}))
                da, dbb = dist_up(graph, a), dist_up(graph, b)
                best = None
                for c in anc_a & anc_b:
                    v = da[c] + dbb[c]
                    best = v if best is None or v < best else best
                if sr:
                    # through the fake root: every maximal path can be extended by the root
                    ra = min((len(p) for p in maximal_simple_paths(graph, a)), default=0) + 1
                    rb = min((len(p) for p in maximal_simple_paths(graph, b)), default=0) + 1
                    v = ra + rb
                    best = v if best is None or v < best else best
                try:
                    sp = taxonomy.shortest_path(nodes[a], nodes[b], simulate_root=sr)
                except wn.Error:
                    sp = None
                if a == b:
                    if sp != []:
                        fails.append(('shortest_path:empty-iff-equal', {'graph': graph, 'a': a}))
                    continue
                if best is None:
                    if sp is not None:
                        fails.append(('shortest_path:error-iff-unconnected', {'graph': graph, 'a': a, 'b': b}))
                    continue
                if sp is None:
                    fails.append(('shortest_path:error-iff-unconnected', {'graph': graph, 'a': a, 'b': b,
                                                                          'simulate_root': sr, 'want_len': best}))
                    continue
                if len(sp) != best:
                    fails.append(('shortest_path:length', {'graph': graph, 'a': a, 'b': b, 'simulate_root': sr,
                                                           'got': [s.id for s in sp], 'want_len': best}))
                if sp[-1].id != f'ss{b}':
                    fails.append(('shortest_path:ends-at-b', {'graph': graph, 'a': a, 'b': b}))
                # genuine path: consecutive nodes adjacent in one direction (the fake root is adjacent to roots
                # of maximal paths only through simulate_root)
                seq = [nodes[a]] + sp
                for x, y in zip(seq, seq[1:]):
                    xi, yi = x.id, y.id
                    if '*ROOT*' in (xi, yi):
                        continue
                    xi, yi = int(xi[2:]), int(yi[2:])
                    if yi not in graph[xi] and xi not in graph[yi]:
                        fails.append(('shortest_path:genuine', {'graph': graph, 'a': a, 'b': b,
                                                                'path': [s.id for s in sp]}))
                        break
                try:
                    back = taxonomy.shortest_path(nodes[b], nodes[a], simulate_root=sr)
                    if len(back) != len(sp):
                        fails.append(('shortest_path:symmetric-length', {'graph': graph, 'a': a, 'b': b}))
                except wn.Error:
                    fails.append(('shortest_path:symmetric-length', {'graph': graph, 'a': a, 'b': b}))
                # lowest common hypernyms: those of greatest max_depth (exact when no cycle of length >= 2)
                if not (long_cycle and known_cycle_restriction):
                    raw = taxonomy.lowest_common_hypernyms(nodes[a], nodes[b], simulate_root=sr)
                    # order contract: listed by (rowid, ILI), whatever the order of the arguments (wup takes the
                    # first element; C14 relies on it for symmetry)
                    keys = [(s._id, s._ili or '') for s in raw]
                    if keys != sorted(keys):
                        fails.append(('lowest_common_hypernyms:sorted', {'graph': graph, 'a': a, 'b': b,
                                                                         'simulate_root': sr, 'order': keys}))
                    lch = sorted(s.id for s in raw)
                    depth = {}
                    for c in anc_a & anc_b:
                        depth[f'ss{c}'] = taxonomy.max_depth(nodes[c], simulate_root=sr)
                    if sr:
                        depth['*ROOT*'] = 0
                    if depth:
                        m = max(depth.values())
                        want = sorted(k for k, v in depth.items() if v == m)
                    else:
                        want = []
                    if lch != want:
                        fails.append(('lowest_common_hypernyms', {'graph': graph, 'a': a, 'b': b,
                                                                  'simulate_root': sr, 'got': lch, 'want': want}))
    if not (long_cycle and known_cycle_restriction):
        td = taxonomy.taxonomy_depth(w, 'n')
        longest = max((len(p) for i in range(n) for p in maximal_simple_paths(graph, i)), default=0)
        if td != longest:
            fails.append(('taxonomy_depth', {'graph': graph, 'got': td, 'want': longest}))
    return fails


class _Timeout(BaseException):
    pass


def _alarm(signum, frame):
    raise _Timeout()


CASE_SECONDS = 15       # a case normally takes milliseconds; the enumerators must terminate on every finite graph


def _run(args):
    import signal
    kind, graph = args
    armed = False
    try:
        signal.signal(signal.SIGALRM, _alarm)
        signal.setitimer(signal.ITIMER_REAL, CASE_SECONDS)
        armed = True
    except (ValueError, AttributeError):      # not in a main thread: no watchdog
        pass
    try:
        return _run_case(kind, graph)
    except _Timeout:
        return [('termination', {'graph': graph, 'error': f'no result within {CASE_SECONDS} s (an enumerator that does '
                                                          'not terminate on this graph)'})]
    finally:
        if armed:
            signal.setitimer(signal.ITIMER_REAL, 0)


def _run_case(kind, graph):
    try:
        if kind == 'paths':
            return check_paths_and_closure(graph)
        if kind == 'taxonomy':
            return check_taxonomy(graph)
        if kind == 'similarity':
            from bounded import simgraphs
            return simgraphs.check_similarity(graph)
        if kind == 'ic':
            from bounded import simgraphs
            return simgraphs.check_ic(graph)
    except RecursionError as exc:
        return [('termination', {'graph': graph, 'error': repr(exc)})]
    except Exception as exc:     # an exception other than wn.Error is a failure of "never raises"
        import traceback
        return [('no-raise', {'graph': graph, 'error': ''.join(traceback.format_exception_only(type(exc), exc))})]


def sweep(kind: str, max_nodes: int, procs: Optional[int] = None, limit: Optional[int] = None):
    """Run the checks on every digraph with 1..max_nodes nodes. Returns (cases, failures)."""
    jobs = []
    for n in range(1, max_nodes + 1):
        for g in all_graphs(n):
            jobs.append((kind, g))
            if limit and len(jobs) >= limit:
                break
    procs = procs or min(16, os.cpu_count() or 1)
    fails = []
    # enough failures to report: stop (a non-terminating enumerator costs CASE_SECONDS per graph)
    enough = 40
    if len(jobs) < 200 or procs == 1:
        for j in jobs:
            fails.extend(_run(j))
            if len(fails) >= enough:
                break
    else:
        with multiprocessing.Pool(procs) as pool:
            for r in pool.imap_unordered(_run, jobs, chunksize=16):
                fails.extend(r)
                if len(fails) >= enough:
                    pool.terminate()
                    break
    return len(jobs), fails


def sample(kind: str, nodes: int, count: int, seed: int = 0, p_edge: float = 0.3, procs: Optional[int] = None):
    """The same checks on `count` random digraphs with `nodes` nodes (edge probability p_edge, self-loops included,
    half of the graphs forced acyclic by keeping only edges i -> j with j > i).  Returns (cases, failures)."""
    import random
    rnd = random.Random(1000003 * seed + 17 * nodes + len(kind))
    jobs, seen = [], set()
    while len(jobs) < count:
        acyclic = rnd.random() < 0.5
        g = tuple(tuple(j for j in range(nodes)
                        if rnd.random() < p_edge and (not acyclic or j > i)) for i in range(nodes))
        if g in seen:
            continue
        seen.add(g)
        jobs.append((kind, g))
    procs = procs or min(16, os.cpu_count() or 1)
    fails = []
    with multiprocessing.Pool(procs) as pool:
        for r in pool.imap_unordered(_run, jobs, chunksize=16):
            fails.extend(r)
            if len(fails) >= 40:
                pool.terminate()
                break
    return len(jobs), fails


def targeted(kind: str):
    """Hand-picked graphs whose hypernym lists are NOT in increasing order (the exhaustive and random generators only
    produce increasing lists, so a result that follows the discovery order coincides with the sorted one there):
    two synsets with several lowest common hypernyms reached in different orders and over paths of different length."""
    graphs = []
    # 0, 1 -> {2, 3} in every combination of orders; 2, 3 roots or under a common root 4
    for h0 in ((2, 3), (3, 2)):
        for h1 in ((2, 3), (3, 2)):
            graphs.append((h0, h1, (), ()))
            graphs.append((h0, h1, (4,), (4,), ()))
    # a -> x, a -> m -> y, b -> n -> y, b -> x; x, y -> r   (0=a 1=b 2=x 3=y 4=m 5=n 6=r), both orders at a and b
    for ha in ((2, 4), (4, 2)):
        for hb in ((5, 2), (2, 5)):
            graphs.append((ha, hb, (6,), (6,), (3,), (3,), ()))
    # a common hypernym c reached over chains of different length to the roots (c -> r and c -> m -> n -> top), in both
    # orders; a, b -> c   (0=a 1=b 2=c 3=r 4=m 5=n 6=top)
    for hc in ((3, 4), (4, 3)):
        graphs.append(((2,), (2,), hc, (), (5,), (6,), ()))
    # a real common hypernym far away and two own roots close by: with simulate_root the shortest path runs over the
    # fake root   (0=a 1=b 2=ra 3=rb 4,5 = chain of a, 6,7 = chain of b, 8 = c)
    for ha in ((2, 4), (4, 2)):
        graphs.append((ha, (3, 6), (), (), (5,), (8,), (7,), (8,), ()))
    fails = []
    for g in graphs:
        fails.extend(_run((kind, g)))
    return len(graphs), fails
