#!/bin/sh
# Build the overlay venv used by every check (offline; ~10 s).
# Python 3.12 from /venv (has wn installed editable from /repo + its deps), plus z3/cvc5 etc. from the wheelhouse.
set -e
cd "$(dirname "$0")"
V=.venv
if [ -x "$V/bin/python" ] && "$V/bin/python" -c "import z3, wn, jsonschema" >/dev/null 2>&1; then
  exit 0
fi
rm -rf "$V"
/venv/bin/python -m venv "$V" --without-pip
echo "import site; site.addsitedir('/venv/lib/python3.12/site-packages')" > "$V/lib/python3.12/site-packages/_repo.pth"
PIP_NO_INDEX=1 /venv/bin/python -m pip --python "$V/bin/python" install -q --no-index \
  --find-links /opt/veriftools/wheels z3-solver cvc5 crosshair-tool deal icontract lark jsonschema >/dev/null
"$V/bin/python" -c "import z3, wn, jsonschema; print('venv ok', z3.get_version_string())"
